#!/bin/bash
# usage: tools/seed_recheck.sh <seed name> <property whose check is run> "<note>"
# Re-runs a check against a stored seeded change after the machinery was strengthened; keeps the first-pass result in meta.json.
name="$1"; prop="$2"; note="$3"
out=/verif/seeded/$name
[ -z "$(git -C /repo status --porcelain)" ] || { echo "/repo not clean"; exit 2; }
git -C /repo apply $out/patch.diff || exit 2
( cd /verif && timeout 3000 ./check "$prop" quick > "$out/check_quick.log" 2>&1 ); rc=$?
git -C /repo checkout -- .
nviol=$(grep -c '^VIOLATION' "$out/check_quick.log")
python3 - "$name" "$prop" "$rc" "$nviol" "$note" <<'PY'
import json,sys
name,prop,rc,nv,note=sys.argv[1:6]
p='/verif/seeded/%s/meta.json'%name
d=json.load(open(p))
if 'first_pass' not in d: d['first_pass']=d['check_quick']
log=open('/verif/seeded/%s/check_quick.log'%name).read().splitlines()
first=[l for l in log if 'violation' in l.lower()][:3]
d['check_quick']={"exit":int(rc),"violation_lines":int(nv),"caught":int(rc)==1 and int(nv)>0,"first_messages":first,"check_run":prop}
d['note']=note
json.dump(d,open(p,'w'),indent=1)
print(name, 'vs', prop, 'caught=', d['check_quick']['caught'])
PY
