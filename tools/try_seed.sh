#!/bin/bash
# usage: tools/try_seed.sh <seed name under /verif/seeded> <property> [tier]  — applies the seeded change to /repo, runs the check, reverts
name="$1"; prop="$2"; tier="${3:-quick}"
[ -z "$(git -C /repo status --porcelain)" ] || { echo "/repo not clean"; exit 2; }
git -C /repo apply /verif/seeded/$name/patch.diff || exit 2
( cd /verif && timeout 3000 ./check "$prop" "$tier" > /tmp/try_seed.log 2>&1 ); rc=$?
git -C /repo checkout -- .
echo "$name vs $prop $tier: exit=$rc violations=$(grep -c '^VIOLATION' /tmp/try_seed.log)"
grep -i 'violation confirmed\|  violation:\|MISMATCH\|unsupported\|INCONCLUSIVE' /tmp/try_seed.log | cut -c1-220 | sort | uniq -c | head -5
