#!/usr/bin/env python3
"""Regenerates /verif/MANIFEST.json from tools/checks.json (the per-property claim texts)."""
import json
props=[json.loads(l) for l in open('/verif/properties.jsonl')]
claims=json.load(open('/verif/tools/checks.json'))
checks=[]; na=[]
for p in props:
    pid=p['id']
    c=claims.get(pid)
    if c and not c.get('not_applicable'):
        checks.append({
          "property_id":pid,
          "quick_cmd":f"./check {pid} quick",
          "thorough_cmd":f"./check {pid} thorough",
          "evidence_file":f"/verif/evidence/{pid}.json",
          "replay_cmd_template":"/verif/bin/vx replay {path}",
          "engine":c.get("engine","gosx"),
          "level_claimed":{"category":c.get("category","model_checking"),"text":c["text"],"design_ref":c.get("design_ref","DESIGN.md section 3, "+pid)},
          "level_note":c["note"],
          "technique":c.get("technique","bounded symbolic execution of go/ssa + SMT (z3), counterexamples replayed natively")})
    else:
        na.append({"property_id":pid,"reason":(c or {}).get("not_applicable","check not built yet (work in progress; see DESIGN.md section 6 build order)")})
m={"version":1,
 "setup_cmd":"cd /verif/engine && GOFLAGS=-mod=mod GOPROXY=off GOSUMDB=off GOTOOLCHAIN=local go build -o /verif/bin/vx ./cmd/vx",
 "hooks":{"guard":"verif","enable":"harnesses are injected in-package by go/packages overlay (engine) and `go test -overlay` (native replay); /repo is not modified by hooks","baseline_off_cmd":"cd /repo && go test -vet=off -count=1 -timeout 25m ./...","source_commits":[],"add_only":True},
 "engines":[{"name":"gobmc","path":"/verif/engine2","serves_properties":[c["property_id"] for c in checks if c["engine"]=="gobmc"],"kind_free_text":"transition-system extraction from goroutine SSA (vx extract, /verif/engine/exec/proc.go) + SMT back end in z3py: one-step induction, BMC, quiescence/progress and race-candidate queries"},{"name":"gosx","path":"/verif/engine","serves_properties":[c["property_id"] for c in checks if c["engine"]=="gosx"],"kind_free_text":"forking symbolic executor over go/ssa of /repo's working tree (bit-vector terms, concrete shapes), SMT queries to z3 4.8.12 in-process (cvc5 / z3 5.1 selectable), native replay of counterexamples via go test -overlay"}],
 "checks":checks,
 "notes":"See DESIGN.md. Every check re-loads /repo's current source into SSA on each run; bounds and stubs are listed in each evidence file.",
 "not_applicable":na}
json.dump(m,open('/verif/MANIFEST.json','w'),indent=1)
print(len(checks),"checks,",len(na),"not applicable")
