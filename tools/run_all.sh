#!/bin/bash
# runs every registered check's quick (or $1) tier on the current tree, sequentially; prints one line per check
cd /verif
tier="${1:-quick}"
for p in $(python3 -c "import json;print(' '.join(c['property_id'] for c in json.load(open('MANIFEST.json'))['checks']))"); do
  s=$(date +%s)
  out=$(timeout 7200 ./check $p $tier 2>&1); rc=$?
  e=$(date +%s)
  nv=$(echo "$out" | grep -c '^VIOLATION')
  inc=$(echo "$out" | grep -c 'INCONCLUSIVE\|ENGINE-MISMATCH\|REACH-FAILURE\|VACUITY-FAILURE\|NOTE:')
  echo "$p $tier exit=$rc violations=$nv attention=$inc wall=$((e-s))s"
  [ "$inc" != "0" ] && echo "$out" | grep 'INCONCLUSIVE\|ENGINE-MISMATCH\|REACH-FAILURE\|VACUITY-FAILURE\|NOTE:' | cut -c1-200 | head -5
done
