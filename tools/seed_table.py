#!/usr/bin/env python3
"""Regenerates /verif/seeded/README.md from seeded/*/meta.json."""
import json, glob, os
rows=[]
for m in sorted(glob.glob('/verif/seeded/*/meta.json')):
    d=json.load(open(m))
    c=d['confirmed']; q=d['check_quick']
    ok=c['demo_passes_on_original'] and c['existing_suite_passes_with_change'] and c['demo_fails_with_change']
    msg=(q['first_messages'][0].strip()[:110] if q['first_messages'] else '')
    fp=d.get('first_pass')
    first='' if fp is None else ('first pass: caught' if fp['caught'] else 'first pass: missed')
    run=q.get('check_run',d['property'])
    rows.append((d['name'],d['property'],'yes' if ok else 'NO',('caught' if q['caught'] else 'MISSED')+(' by '+run if run!=d['property'] else ''),msg,(first+'; ' if first else '')+d.get('note','')))
out=['# Seeded changes (independent sub-agents: property text + scratch worktree only)','',
 'Each directory holds `patch.diff`, the agent\'s demonstration (`demo_test.go.txt`), its own description (`README.agent.md`), the log of the quick check run with the change applied (`check_quick.log`) and `meta.json`. "confirmed" = I re-ran, in a scratch worktree: demo passes on the original tree, the existing suite passes with the change, the demo fails with the change. None of these changes is ever committed to /repo.','',
 '| change | property | confirmed | quick check | first message | note |','|---|---|---|---|---|---|']
for r in rows: out.append('| %s | %s | %s | %s | %s | %s |' % r)
caught=sum(1 for r in rows if r[3].startswith('caught')); cross=sum(1 for r in rows if r[3].startswith('caught by')); out+=['','%d of %d confirmed changes caught by a quick check (%d of them by the check of a neighbouring property, named in the column; first-pass results are in the note column).' % (caught,len(rows),cross)]
open('/verif/seeded/README.md','w').write('\n'.join(out)+'\n')
print('\n'.join(out[-3:]))
