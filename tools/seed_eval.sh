#!/bin/bash
# usage: tools/seed_eval.sh <property> <seed dir (contains patch.diff, demo_test.go, README.md)> <name> [race]
# 1. confirms the seeded change in a scratch worktree (original: demo passes; changed: suite passes, demo fails)
# 2. applies it to /repo, runs the property's quick check, reverts /repo
# 3. stores patch, demo and meta.json under /verif/seeded/<name>/
export GOFLAGS=-mod=mod GOPROXY=off GOSUMDB=off GOTOOLCHAIN=local
prop="$1"; src="$2"; name="$3"; race="$4"; demodir="$5"
out=/verif/seeded/$name; mkdir -p "$out"
cp "$src/patch.diff" "$out/patch.diff"; cp "$src/demo_test.go" "$out/demo_test.go.txt"; [ -f "$src/README.md" ] && cp "$src/README.md" "$out/README.agent.md"
pkgdir=$(grep -m1 '^+++ b/' "$out/patch.diff" | sed 's#+++ b/##' | xargs dirname)
[ -n "$demodir" ] && pkgdir="$demodir"
wt=/tmp/wt_eval_$$; git -C /repo worktree add -q "$wt" HEAD || exit 2
rflag=""; [ "$race" = "race" ] && rflag="-race"
cp "$src/demo_test.go" "$wt/$pkgdir/zz_seed_demo_test.go"
( cd "$wt" && timeout 600 go test $rflag -vet=off -count=1 -run 'TestSeedDemo' ./$pkgdir > "$out/orig_demo.log" 2>&1 ); orig_demo=$?
( cd "$wt" && git apply "$out/patch.diff" ) || { echo "patch does not apply"; git -C /repo worktree remove --force "$wt"; exit 2; }
rm -f "$wt/$pkgdir/zz_seed_demo_test.go"
( cd "$wt" && timeout 900 go test -vet=off -count=1 ./... > "$out/mut_suite.log" 2>&1 ); mut_suite=$?
cp "$src/demo_test.go" "$wt/$pkgdir/zz_seed_demo_test.go"
( cd "$wt" && timeout 600 go test $rflag -vet=off -count=1 -run 'TestSeedDemo' ./$pkgdir > "$out/mut_demo.log" 2>&1 ); mut_demo=$?
git -C /repo worktree remove --force "$wt"
echo "confirm: orig_demo=$orig_demo (want 0) mut_suite=$mut_suite (want 0) mut_demo=$mut_demo (want !=0)"
# run the check on /repo with the change applied
git -C /repo apply "$out/patch.diff" || exit 2
( cd /verif && timeout 3000 ./check "$prop" quick > "$out/check_quick.log" 2>&1 ); rc=$?
git -C /repo checkout -- .
nviol=$(grep -c '^VIOLATION' "$out/check_quick.log")
echo "check $prop quick: exit=$rc violations=$nviol"
python3 - "$prop" "$name" "$orig_demo" "$mut_suite" "$mut_demo" "$rc" "$nviol" "$race" <<'PY'
import json,sys
prop,name,od,ms,md,rc,nv,race=sys.argv[1:9]
out='/verif/seeded/%s'%name
log=open(out+'/check_quick.log').read().splitlines()
first=[l for l in log if 'violation' in l.lower()][:3]
meta={"property":prop,"name":name,"source":"independent sub-agent given only the property text and a scratch worktree",
 "needs_to_manifest":"see README.agent.md","demo_uses_race_detector":race=="race",
 "confirmed":{"demo_passes_on_original":od=="0","existing_suite_passes_with_change":ms=="0","demo_fails_with_change":md!="0"},
 "ran":["go test [-race] -run TestSeedDemo ./<pkg> on the original tree","git apply patch.diff; go test -vet=off -count=1 ./...; go test -run TestSeedDemo","git -C /repo apply patch.diff; ./check %s quick; git -C /repo checkout -- ."%prop],
 "check_quick":{"exit":int(rc),"violation_lines":int(nv),"caught":int(rc)==1 and int(nv)>0,"first_messages":first}}
json.dump(meta,open(out+'/meta.json','w'),indent=1)
print(json.dumps(meta["confirmed"]), "caught=",meta["check_quick"]["caught"])
PY
rm -f "$out/orig_demo.log" "$out/mut_suite.log"
