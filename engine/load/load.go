// Package load builds the SSA program for /repo's current working tree plus overlay harness files.
package load

import (
	"crypto/sha256"
	"encoding/hex"
	"fmt"
	"go/types"
	"os"
	"path/filepath"
	"strings"

	"golang.org/x/tools/go/packages"
	"golang.org/x/tools/go/ssa"
	"golang.org/x/tools/go/ssa/ssautil"
	"vx/exec"
)

type Harness struct {
	RepoDir string            // /repo
	PkgDir  string            // relative dir of the package under test, e.g. util/fsutil
	Files   map[string]string // virtual file name (base) -> real path of harness source
	PkgName string
}

// Overlay returns virtual path -> contents (harness files + runtime).
func (h *Harness) Overlay(rtDir string, withTest bool, harnessNames []string) (map[string][]byte, error) {
	ov := map[string][]byte{}
	for base, real := range h.Files {
		data, err := os.ReadFile(real)
		if err != nil {
			return nil, err
		}
		ov[filepath.Join(h.RepoDir, h.PkgDir, base)] = data
	}
	rt, err := os.ReadFile(filepath.Join(rtDir, "vxrt.go.txt"))
	if err != nil {
		return nil, err
	}
	ov[filepath.Join(h.RepoDir, h.PkgDir, "zz_vx_rt.go")] = []byte(strings.Replace(string(rt), "PKGNAME", h.PkgName, 1))
	if withTest {
		tst, err := os.ReadFile(filepath.Join(rtDir, "vxreplay_test.go.txt"))
		if err != nil {
			return nil, err
		}
		var sb strings.Builder
		sb.WriteString(strings.Replace(string(tst), "PKGNAME", h.PkgName, 1))
		sb.WriteString("\nvar vxHarnesses = map[string]func(){\n")
		for _, n := range harnessNames {
			fmt.Fprintf(&sb, "\t%q: %s,\n", n, n)
		}
		sb.WriteString("}\n")
		ov[filepath.Join(h.RepoDir, h.PkgDir, "zz_vx_replay_test.go")] = []byte(sb.String())
	}
	return ov, nil
}

func Load(h *Harness, rtDir string, extraOverlay map[string][]byte) (*exec.Program, *ssa.Package, error) {
	ov, err := h.Overlay(rtDir, false, nil)
	if err != nil {
		return nil, nil, err
	}
	for k, v := range extraOverlay {
		ov[k] = v
	}
	cfg := &packages.Config{
		Mode:    packages.LoadAllSyntax,
		Dir:     h.RepoDir,
		Overlay: ov,
		Env:     append(os.Environ(), "GOFLAGS=-mod=mod", "GOPROXY=off", "GOSUMDB=off", "GOTOOLCHAIN=local"),
	}
	pkgs, err := packages.Load(cfg, "./"+h.PkgDir)
	if err != nil {
		return nil, nil, err
	}
	var errs []string
	packages.Visit(pkgs, nil, func(p *packages.Package) {
		for _, e := range p.Errors {
			errs = append(errs, e.Error())
		}
	})
	if len(errs) > 0 {
		return nil, nil, fmt.Errorf("load errors:\n%s", strings.Join(errs, "\n"))
	}
	prog, spkgs := ssautil.AllPackages(pkgs, ssa.InstantiateGenerics)
	prog.Build()
	if len(spkgs) == 0 || spkgs[0] == nil {
		return nil, nil, fmt.Errorf("no ssa package")
	}
	files := map[string]string{}
	packages.Visit(pkgs, nil, func(p *packages.Package) {
		if !strings.HasPrefix(p.PkgPath, exec.ModulePrefix) {
			return
		}
		for _, f := range p.GoFiles {
			if data, ok := ov[f]; ok {
				s := sha256.Sum256(data)
				files[f] = hex.EncodeToString(s[:])
			} else if data, err := os.ReadFile(f); err == nil {
				s := sha256.Sum256(data)
				files[f] = hex.EncodeToString(s[:])
			}
		}
	})
	p := &exec.Program{Prog: prog, Pkgs: prog.AllPackages(), Sizes: types.SizesFor("gc", "amd64"), Files: files}
	return p, spkgs[0], nil
}
