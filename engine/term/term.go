// Package term: hash-consed bit-vector / Bool term DAG with constant folding
// and an SMT-LIB2 printer (shared nodes are emitted as zero-arity define-funs).
package term

import (
	"fmt"
	"math/bits"
	"strconv"
	"strings"
)

type Op uint8

const (
	OConst Op = iota // BV constant (W>0) or Bool constant (W==0; Val 0/1)
	OVar
	ONot // bool
	OAnd // bool, n-ary (2)
	OOr
	OIte // bool cond, a, b (a,b same sort)
	OEq  // a,b same sort -> bool
	OAdd
	OSub
	OMul
	OUDiv
	OURem
	OSDiv
	OSRem
	OBAnd
	OBOr
	OBXor
	OShl
	OLShr
	OAShr
	ONeg
	OBNot
	OUlt
	OUle
	OSlt
	OSle
	OConcat
	OExtract // Val = hi<<8 | lo
	OZExt    // to width W
	OSExt
)

var opNames = map[Op]string{
	ONot: "not", OAnd: "and", OOr: "or", OIte: "ite", OEq: "=",
	OAdd: "bvadd", OSub: "bvsub", OMul: "bvmul", OUDiv: "bvudiv", OURem: "bvurem", OSDiv: "bvsdiv", OSRem: "bvsrem",
	OBAnd: "bvand", OBOr: "bvor", OBXor: "bvxor", OShl: "bvshl", OLShr: "bvlshr", OAShr: "bvashr", ONeg: "bvneg", OBNot: "bvnot",
	OUlt: "bvult", OUle: "bvule", OSlt: "bvslt", OSle: "bvsle", OConcat: "concat",
}

// Term is immutable once built. W==0 means Bool.
type Term struct {
	Op   Op
	W    int
	Val  uint64
	Name string
	Args []*Term
	ID   int
}

func (t *Term) IsConst() bool { return t.Op == OConst }
func (t *Term) IsBool() bool  { return t.W == 0 }

type key struct {
	op         Op
	w          int
	val        uint64
	name       string
	a0, a1, a2 int
}

// Table is a hash-consing table; not safe for concurrent use (one per worker).
type Table struct {
	m     map[key]*Term
	next  int
	True  *Term
	False *Term
}

func NewTable() *Table {
	tb := &Table{m: map[key]*Term{}}
	tb.True = tb.mk(OConst, 0, 1, "", nil)
	tb.False = tb.mk(OConst, 0, 0, "", nil)
	return tb
}

func (tb *Table) Size() int { return tb.next }

func (tb *Table) mk(op Op, w int, val uint64, name string, args []*Term) *Term {
	k := key{op: op, w: w, val: val, name: name, a0: -1, a1: -1, a2: -1}
	if len(args) > 0 {
		k.a0 = args[0].ID
	}
	if len(args) > 1 {
		k.a1 = args[1].ID
	}
	if len(args) > 2 {
		k.a2 = args[2].ID
	}
	if len(args) > 3 {
		panic("term: arity")
	}
	if t, ok := tb.m[k]; ok {
		return t
	}
	t := &Term{Op: op, W: w, Val: val, Name: name, Args: args, ID: tb.next}
	tb.next++
	tb.m[k] = t
	return t
}

func Mask(w int) uint64 {
	if w >= 64 {
		return ^uint64(0)
	}
	return (uint64(1) << uint(w)) - 1
}

func sx(v uint64, w int) int64 {
	if w >= 64 {
		return int64(v)
	}
	sh := uint(64 - w)
	return int64(v<<sh) >> sh
}

func (tb *Table) Const(w int, v uint64) *Term {
	if w <= 0 || w > 64 {
		panic(fmt.Sprintf("term: bad width %d", w))
	}
	return tb.mk(OConst, w, v&Mask(w), "", nil)
}
func (tb *Table) Bool(b bool) *Term {
	if b {
		return tb.True
	}
	return tb.False
}
func (tb *Table) Var(name string, w int) *Term { return tb.mk(OVar, w, 0, name, nil) }

func (tb *Table) Not(a *Term) *Term {
	if a.Op == OConst {
		return tb.Bool(a.Val == 0)
	}
	if a.Op == ONot {
		return a.Args[0]
	}
	return tb.mk(ONot, 0, 0, "", []*Term{a})
}
func (tb *Table) And(a, b *Term) *Term {
	if a.Op == OConst {
		if a.Val == 0 {
			return tb.False
		}
		return b
	}
	if b.Op == OConst {
		if b.Val == 0 {
			return tb.False
		}
		return a
	}
	if a == b {
		return a
	}
	if (a.Op == ONot && a.Args[0] == b) || (b.Op == ONot && b.Args[0] == a) {
		return tb.False
	}
	if a.ID > b.ID {
		a, b = b, a
	}
	return tb.mk(OAnd, 0, 0, "", []*Term{a, b})
}
func (tb *Table) Or(a, b *Term) *Term {
	if a.Op == OConst {
		if a.Val == 1 {
			return tb.True
		}
		return b
	}
	if b.Op == OConst {
		if b.Val == 1 {
			return tb.True
		}
		return a
	}
	if a == b {
		return a
	}
	if (a.Op == ONot && a.Args[0] == b) || (b.Op == ONot && b.Args[0] == a) {
		return tb.True
	}
	if a.ID > b.ID {
		a, b = b, a
	}
	return tb.mk(OOr, 0, 0, "", []*Term{a, b})
}
func (tb *Table) Implies(a, b *Term) *Term { return tb.Or(tb.Not(a), b) }

func (tb *Table) Ite(c, a, b *Term) *Term {
	if a.W != b.W {
		panic("term: ite sorts")
	}
	if c.Op == OConst {
		if c.Val == 1 {
			return a
		}
		return b
	}
	if a == b {
		return a
	}
	if a.W == 0 {
		if a.Op == OConst && b.Op == OConst {
			if a.Val == 1 {
				return c
			}
			return tb.Not(c)
		}
		if a.Op == OConst {
			if a.Val == 1 {
				return tb.Or(c, b)
			}
			return tb.And(tb.Not(c), b)
		}
		if b.Op == OConst {
			if b.Val == 1 {
				return tb.Or(tb.Not(c), a)
			}
			return tb.And(c, a)
		}
	}
	if c.Op == ONot {
		return tb.mk(OIte, a.W, 0, "", []*Term{c.Args[0], b, a})
	}
	return tb.mk(OIte, a.W, 0, "", []*Term{c, a, b})
}

func (tb *Table) Eq(a, b *Term) *Term {
	if a.W != b.W {
		panic(fmt.Sprintf("term: eq sorts %d %d", a.W, b.W))
	}
	if a == b {
		return tb.True
	}
	if a.Op == OConst && b.Op == OConst {
		return tb.Bool(a.Val == b.Val)
	}
	if a.W == 0 {
		if a.Op == OConst {
			if a.Val == 1 {
				return b
			}
			return tb.Not(b)
		}
		if b.Op == OConst {
			if b.Val == 1 {
				return a
			}
			return tb.Not(a)
		}
	}
	// put constant second
	if a.Op == OConst {
		a, b = b, a
	}
	if b.Op == OConst {
		switch a.Op {
		case OZExt:
			in := a.Args[0]
			if b.Val > Mask(in.W) {
				return tb.False
			}
			return tb.Eq(in, tb.Const(in.W, b.Val))
		case OSExt:
			in := a.Args[0]
			if uint64(sx(b.Val&Mask(in.W), in.W))&Mask(a.W) != b.Val {
				return tb.False
			}
			return tb.Eq(in, tb.Const(in.W, b.Val))
		case OIte:
			// push equality into ite with constant leaves
			x, y := a.Args[1], a.Args[2]
			if x.Op == OConst && y.Op == OConst {
				ex, ey := x.Val == b.Val, y.Val == b.Val
				switch {
				case ex && ey:
					return tb.True
				case ex:
					return a.Args[0]
				case ey:
					return tb.Not(a.Args[0])
				default:
					return tb.False
				}
			}
			if x.Op == OConst || y.Op == OConst {
				return tb.Ite(a.Args[0], tb.Eq(x, b), tb.Eq(y, b))
			}
		}
	} else if a.ID > b.ID {
		a, b = b, a
	}
	return tb.mk(OEq, 0, 0, "", []*Term{a, b})
}

func (tb *Table) bin(op Op, a, b *Term) *Term {
	if a.W != b.W || a.W == 0 {
		panic(fmt.Sprintf("term: binop %s sorts %d %d", opNames[op], a.W, b.W))
	}
	w := a.W
	m := Mask(w)
	if a.Op == OConst && b.Op == OConst {
		x, y := a.Val, b.Val
		var r uint64
		switch op {
		case OAdd:
			r = x + y
		case OSub:
			r = x - y
		case OMul:
			r = x * y
		case OUDiv:
			if y == 0 {
				r = m
			} else {
				r = x / y
			}
		case OURem:
			if y == 0 {
				r = x
			} else {
				r = x % y
			}
		case OSDiv:
			sxv, syv := sx(x, w), sx(y, w)
			if syv == 0 {
				if sxv < 0 {
					r = 1
				} else {
					r = m
				}
			} else if syv == -1 {
				r = uint64(-sxv)
			} else {
				r = uint64(sxv / syv)
			}
		case OSRem:
			sxv, syv := sx(x, w), sx(y, w)
			if syv == 0 {
				r = x
			} else if syv == -1 {
				r = 0
			} else {
				r = uint64(sxv % syv)
			}
		case OBAnd:
			r = x & y
		case OBOr:
			r = x | y
		case OBXor:
			r = x ^ y
		case OShl:
			if y >= uint64(w) {
				r = 0
			} else {
				r = x << y
			}
		case OLShr:
			if y >= uint64(w) {
				r = 0
			} else {
				r = x >> y
			}
		case OAShr:
			sv := sx(x, w)
			if y >= uint64(w) {
				if sv < 0 {
					r = m
				} else {
					r = 0
				}
			} else {
				r = uint64(sv >> y)
			}
		}
		return tb.Const(w, r)
	}
	// identities
	switch op {
	case OAdd:
		if a.Op == OConst && a.Val == 0 {
			return b
		}
		if b.Op == OConst && b.Val == 0 {
			return a
		}
	case OSub:
		if b.Op == OConst && b.Val == 0 {
			return a
		}
		if a == b {
			return tb.Const(w, 0)
		}
	case OMul:
		if a.Op == OConst && a.Val == 1 {
			return b
		}
		if b.Op == OConst && b.Val == 1 {
			return a
		}
		if (a.Op == OConst && a.Val == 0) || (b.Op == OConst && b.Val == 0) {
			return tb.Const(w, 0)
		}
	case OBAnd:
		if a.Op == OConst {
			a, b = b, a
		}
		if b.Op == OConst {
			if b.Val == 0 {
				return b
			}
			if b.Val == m {
				return a
			}
			// mask of a zero-extended narrower value
			if a.Op == OZExt && b.Val&Mask(a.Args[0].W) == Mask(a.Args[0].W) {
				return a
			}
		}
		if a == b {
			return a
		}
	case OBOr:
		if a.Op == OConst {
			a, b = b, a
		}
		if b.Op == OConst {
			if b.Val == 0 {
				return a
			}
			if b.Val == m {
				return b
			}
		}
		if a == b {
			return a
		}
	case OBXor:
		if a.Op == OConst && a.Val == 0 {
			return b
		}
		if b.Op == OConst && b.Val == 0 {
			return a
		}
		if a == b {
			return tb.Const(w, 0)
		}
	case OShl, OLShr, OAShr:
		if b.Op == OConst && b.Val == 0 {
			return a
		}
		if b.Op == OConst && b.Val >= uint64(w) && op != OAShr {
			return tb.Const(w, 0)
		}
	case OUDiv:
		if b.Op == OConst && b.Val == 1 {
			return a
		}
	}
	return tb.mk(op, w, 0, "", []*Term{a, b})
}

func (tb *Table) Add(a, b *Term) *Term  { return tb.bin(OAdd, a, b) }
func (tb *Table) Sub(a, b *Term) *Term  { return tb.bin(OSub, a, b) }
func (tb *Table) Mul(a, b *Term) *Term  { return tb.bin(OMul, a, b) }
func (tb *Table) UDiv(a, b *Term) *Term { return tb.bin(OUDiv, a, b) }
func (tb *Table) URem(a, b *Term) *Term { return tb.bin(OURem, a, b) }
func (tb *Table) SDiv(a, b *Term) *Term { return tb.bin(OSDiv, a, b) }
func (tb *Table) SRem(a, b *Term) *Term { return tb.bin(OSRem, a, b) }
func (tb *Table) BAnd(a, b *Term) *Term { return tb.bin(OBAnd, a, b) }
func (tb *Table) BOr(a, b *Term) *Term  { return tb.bin(OBOr, a, b) }
func (tb *Table) BXor(a, b *Term) *Term { return tb.bin(OBXor, a, b) }
func (tb *Table) Shl(a, b *Term) *Term  { return tb.bin(OShl, a, b) }
func (tb *Table) LShr(a, b *Term) *Term { return tb.bin(OLShr, a, b) }
func (tb *Table) AShr(a, b *Term) *Term { return tb.bin(OAShr, a, b) }

func (tb *Table) Neg(a *Term) *Term {
	if a.Op == OConst {
		return tb.Const(a.W, -a.Val)
	}
	return tb.mk(ONeg, a.W, 0, "", []*Term{a})
}
func (tb *Table) BNot(a *Term) *Term {
	if a.Op == OConst {
		return tb.Const(a.W, ^a.Val)
	}
	if a.Op == OBNot {
		return a.Args[0]
	}
	return tb.mk(OBNot, a.W, 0, "", []*Term{a})
}

// range of an unsigned term, cheap syntactic bound: returns max possible value.
func umax(t *Term) uint64 {
	switch t.Op {
	case OConst:
		return t.Val
	case OZExt:
		return umax(t.Args[0])
	case OBAnd:
		a, b := umax(t.Args[0]), umax(t.Args[1])
		if a < b {
			return a
		}
		return b
	case OLShr:
		if t.Args[1].Op == OConst && t.Args[1].Val < 64 {
			return umax(t.Args[0]) >> t.Args[1].Val
		}
	case OIte:
		a, b := umax(t.Args[1]), umax(t.Args[2])
		if a > b {
			return a
		}
		return b
	case OURem:
		if t.Args[1].Op == OConst && t.Args[1].Val > 0 {
			return t.Args[1].Val - 1
		}
	}
	return Mask(t.W)
}

func (tb *Table) cmp(op Op, a, b *Term) *Term {
	if a.W != b.W || a.W == 0 {
		panic(fmt.Sprintf("term: cmp sorts %d %d", a.W, b.W))
	}
	w := a.W
	if a.Op == OConst && b.Op == OConst {
		switch op {
		case OUlt:
			return tb.Bool(a.Val < b.Val)
		case OUle:
			return tb.Bool(a.Val <= b.Val)
		case OSlt:
			return tb.Bool(sx(a.Val, w) < sx(b.Val, w))
		case OSle:
			return tb.Bool(sx(a.Val, w) <= sx(b.Val, w))
		}
	}
	if a == b {
		return tb.Bool(op == OUle || op == OSle)
	}
	// cheap range-based decisions (values known non-negative & small)
	half := uint64(1) << uint(w-1)
	ma, mb := umax(a), umax(b)
	if b.Op == OConst {
		switch op {
		case OUlt:
			if ma < b.Val {
				return tb.True
			}
			if b.Val == 0 {
				return tb.False
			}
		case OUle:
			if ma <= b.Val {
				return tb.True
			}
		case OSlt:
			if ma < half && b.Val < half && ma < b.Val {
				return tb.True
			}
			if ma < half && b.Val >= half { // b negative, a non-negative
				return tb.False
			}
			if ma < half && b.Val == 0 {
				return tb.False
			}
		case OSle:
			if ma < half && b.Val < half && ma <= b.Val {
				return tb.True
			}
			if ma < half && b.Val >= half {
				return tb.False
			}
		}
	}
	if a.Op == OConst {
		switch op {
		case OUlt:
			if a.Val >= mb {
				return tb.False
			}
		case OUle:
			if a.Val == 0 {
				return tb.True
			}
		case OSlt:
			if mb < half && a.Val >= half {
				return tb.True
			}
			if mb < half && a.Val < half && a.Val >= mb {
				return tb.False
			}
		case OSle:
			if mb < half && a.Val >= half {
				return tb.True
			}
			if mb < half && a.Val == 0 {
				return tb.True
			}
		}
	}
	return tb.mk(op, 0, 0, "", []*Term{a, b})
}
func (tb *Table) Ult(a, b *Term) *Term { return tb.cmp(OUlt, a, b) }
func (tb *Table) Ule(a, b *Term) *Term { return tb.cmp(OUle, a, b) }
func (tb *Table) Slt(a, b *Term) *Term { return tb.cmp(OSlt, a, b) }
func (tb *Table) Sle(a, b *Term) *Term { return tb.cmp(OSle, a, b) }

func (tb *Table) Concat(a, b *Term) *Term {
	if a.Op == OConst && b.Op == OConst {
		return tb.Const(a.W+b.W, a.Val<<uint(b.W)|b.Val)
	}
	return tb.mk(OConcat, a.W+b.W, 0, "", []*Term{a, b})
}
func (tb *Table) Extract(a *Term, hi, lo int) *Term {
	if hi < lo || hi >= a.W {
		panic("term: extract range")
	}
	w := hi - lo + 1
	if w == a.W {
		return a
	}
	if a.Op == OConst {
		return tb.Const(w, a.Val>>uint(lo))
	}
	switch a.Op {
	case OZExt:
		in := a.Args[0]
		if hi < in.W {
			return tb.Extract(in, hi, lo)
		}
		if lo >= in.W {
			return tb.Const(w, 0)
		}
		if lo == 0 {
			return tb.ZExt(in, w)
		}
	case OSExt:
		in := a.Args[0]
		if hi < in.W {
			return tb.Extract(in, hi, lo)
		}
	case OConcat:
		lowW := a.Args[1].W
		if hi < lowW {
			return tb.Extract(a.Args[1], hi, lo)
		}
		if lo >= lowW {
			return tb.Extract(a.Args[0], hi-lowW, lo-lowW)
		}
	}
	return tb.mk(OExtract, w, uint64(hi)<<8|uint64(lo), "", []*Term{a})
}
func (tb *Table) ZExt(a *Term, w int) *Term {
	if w == a.W {
		return a
	}
	if w < a.W {
		return tb.Extract(a, w-1, 0)
	}
	if a.Op == OConst {
		return tb.Const(w, a.Val)
	}
	if a.Op == OZExt {
		return tb.ZExt(a.Args[0], w)
	}
	return tb.mk(OZExt, w, 0, "", []*Term{a})
}
func (tb *Table) SExt(a *Term, w int) *Term {
	if w == a.W {
		return a
	}
	if w < a.W {
		return tb.Extract(a, w-1, 0)
	}
	if a.Op == OConst {
		return tb.Const(w, uint64(sx(a.Val, a.W)))
	}
	if a.Op == OZExt { // zero-extended value is non-negative
		return tb.ZExt(a.Args[0], w)
	}
	return tb.mk(OSExt, w, 0, "", []*Term{a})
}

// ---------------------------------------------------------------- printing

func SortStr(w int) string {
	if w == 0 {
		return "Bool"
	}
	return "(_ BitVec " + strconv.Itoa(w) + ")"
}

func constStr(t *Term) string {
	if t.W == 0 {
		if t.Val == 1 {
			return "true"
		}
		return "false"
	}
	if t.W%4 == 0 {
		s := strconv.FormatUint(t.Val, 16)
		return "#x" + strings.Repeat("0", t.W/4-len(s)) + s
	}
	s := strconv.FormatUint(t.Val, 2)
	return "#b" + strings.Repeat("0", t.W-len(s)) + s
}

// Ref returns the name under which the term is referenced once defined.
func Ref(t *Term) string {
	switch t.Op {
	case OConst:
		return constStr(t)
	case OVar:
		return t.Name
	}
	return "t" + strconv.Itoa(t.ID)
}

// Emit writes the definitions needed for t (post-order) that are not in `defined`,
// marking them; returns the reference name.
func Emit(t *Term, defined map[int]bool, out *strings.Builder) string {
	return EmitRec(t, defined, out, nil)
}

// EmitRec is Emit that also appends the ids it defines to *rec (if non-nil).
func EmitRec(t *Term, defined map[int]bool, out *strings.Builder, rec *[]int) string {
	if t.Op == OConst {
		return constStr(t)
	}
	if defined[t.ID] {
		return Ref(t)
	}
	// iterative post-order
	type fr struct {
		t *Term
		i int
	}
	st := []fr{{t, 0}}
	for len(st) > 0 {
		f := &st[len(st)-1]
		if f.t.Op == OConst || defined[f.t.ID] {
			st = st[:len(st)-1]
			continue
		}
		if f.i < len(f.t.Args) {
			a := f.t.Args[f.i]
			f.i++
			if a.Op != OConst && !defined[a.ID] {
				st = append(st, fr{a, 0})
			}
			continue
		}
		x := f.t
		st = st[:len(st)-1]
		defined[x.ID] = true
		if rec != nil {
			*rec = append(*rec, x.ID)
		}
		if x.Op == OVar {
			fmt.Fprintf(out, "(declare-const %s %s)\n", x.Name, SortStr(x.W))
			continue
		}
		fmt.Fprintf(out, "(define-fun t%d () %s ", x.ID, SortStr(x.W))
		switch x.Op {
		case OExtract:
			fmt.Fprintf(out, "((_ extract %d %d) %s)", x.Val>>8, x.Val&0xff, Ref(x.Args[0]))
		case OZExt:
			fmt.Fprintf(out, "((_ zero_extend %d) %s)", x.W-x.Args[0].W, Ref(x.Args[0]))
		case OSExt:
			fmt.Fprintf(out, "((_ sign_extend %d) %s)", x.W-x.Args[0].W, Ref(x.Args[0]))
		default:
			out.WriteString("(" + opNames[x.Op])
			for _, a := range x.Args {
				out.WriteString(" " + Ref(a))
			}
			out.WriteString(")")
		}
		out.WriteString(")\n")
	}
	return Ref(t)
}

// Eval evaluates t under a model (variable name -> value). Missing variables are 0.
func Eval(t *Term, model map[string]uint64, memo map[int]uint64) uint64 {
	if t.Op == OConst {
		return t.Val
	}
	if v, ok := memo[t.ID]; ok {
		return v
	}
	var r uint64
	a := func(i int) uint64 { return Eval(t.Args[i], model, memo) }
	b2u := func(b bool) uint64 {
		if b {
			return 1
		}
		return 0
	}
	switch t.Op {
	case OVar:
		r = model[t.Name] & Mask(maxi(t.W, 1))
	case ONot:
		r = 1 - a(0)
	case OAnd:
		r = a(0) & a(1)
	case OOr:
		r = a(0) | a(1)
	case OIte:
		if a(0) == 1 {
			r = a(1)
		} else {
			r = a(2)
		}
	case OEq:
		r = b2u(a(0) == a(1))
	case OUlt:
		r = b2u(a(0) < a(1))
	case OUle:
		r = b2u(a(0) <= a(1))
	case OSlt:
		r = b2u(sx(a(0), t.Args[0].W) < sx(a(1), t.Args[0].W))
	case OSle:
		r = b2u(sx(a(0), t.Args[0].W) <= sx(a(1), t.Args[0].W))
	case ONeg:
		r = (-a(0)) & Mask(t.W)
	case OBNot:
		r = (^a(0)) & Mask(t.W)
	case OConcat:
		r = a(0)<<uint(t.Args[1].W) | a(1)
	case OExtract:
		hi, lo := int(t.Val>>8), int(t.Val&0xff)
		r = (a(0) >> uint(lo)) & Mask(hi-lo+1)
	case OZExt:
		r = a(0)
	case OSExt:
		r = uint64(sx(a(0), t.Args[0].W)) & Mask(t.W)
	default:
		// reuse the constant folder
		tmp := NewTable()
		c := tmp.bin(t.Op, tmp.Const(t.W, a(0)), tmp.Const(t.W, a(1)))
		r = c.Val
	}
	memo[t.ID] = r
	return r
}

func maxi(a, b int) int {
	if a > b {
		return a
	}
	return b
}

var _ = bits.Len64

// String prints t as a self-contained SMT-LIB2 expression (no sharing).
func String(t *Term) string {
	switch t.Op {
	case OConst:
		return constStr(t)
	case OVar:
		return t.Name
	case OExtract:
		return "((_ extract " + strconv.Itoa(int(t.Val>>8)) + " " + strconv.Itoa(int(t.Val&0xff)) + ") " + String(t.Args[0]) + ")"
	case OZExt:
		return "((_ zero_extend " + strconv.Itoa(t.W-t.Args[0].W) + ") " + String(t.Args[0]) + ")"
	case OSExt:
		return "((_ sign_extend " + strconv.Itoa(t.W-t.Args[0].W) + ") " + String(t.Args[0]) + ")"
	}
	var sb strings.Builder
	sb.WriteString("(" + opNames[t.Op])
	for _, a := range t.Args {
		sb.WriteString(" " + String(a))
	}
	sb.WriteString(")")
	return sb.String()
}
