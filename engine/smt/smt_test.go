package smt

import (
	"testing"
	"vx/term"
)

func TestBasic(t *testing.T) {
	for _, k := range []string{"z3", "z3-new", "cvc5", "z3lib"} {
		s, err := New(k, 10000)
		if err != nil {
			t.Fatal(err)
		}
		tb := term.NewTable()
		x := tb.Var("x", 8)
		y := tb.Var("y", 8)
		c := tb.Eq(tb.Add(x, y), tb.Const(8, 10))
		d := tb.Ult(x, tb.Const(8, 3))
		r := s.Check([]*term.Term{c, d}, nil)
		if r != Sat {
			t.Fatalf("%s: want sat got %v (%s)", k, r, s.LastError)
		}
		m, err := s.Values([]*term.Term{x, y, c})
		if err != nil {
			t.Fatal(err)
		}
		if (m[x]+m[y])&0xff != 10 || m[x] >= 3 || m[c] != 1 {
			t.Fatalf("bad model %v", m)
		}
		r = s.Check([]*term.Term{d, tb.Ult(tb.Const(8, 5), x)}, nil)
		if r != Unsat {
			t.Fatalf("want unsat got %v", r)
		}
		r = s.Check([]*term.Term{d}, []bool{true})
		if r != Sat {
			t.Fatalf("want sat")
		}
		s.Close()
	}
}
