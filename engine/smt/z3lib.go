package smt

/*
#cgo CFLAGS: -I/opt/veriftools/pyvenv/lib/python3.11/site-packages/z3/include
#cgo LDFLAGS: -L/opt/veriftools/pyvenv/lib/python3.11/site-packages/z3/lib -lz3 -Wl,-rpath,/opt/veriftools/pyvenv/lib/python3.11/site-packages/z3/lib
#include <z3.h>
#include <stdlib.h>

static void vx_err_handler(Z3_context c, Z3_error_code e) { (void)c; (void)e; }
static Z3_context vx_mk_ctx(void) {
	Z3_config cfg = Z3_mk_config();
	Z3_context ctx = Z3_mk_context(cfg);
	Z3_del_config(cfg);
	Z3_set_error_handler(ctx, vx_err_handler);
	return ctx;
}
*/
import "C"

import (
	"runtime"
	"unsafe"
)

// libCtx is an in-process Z3 context driven through SMT-LIB2 text (Z3_eval_smtlib2_string),
// avoiding pipe round trips (which cost ~1-3 ms each in this sandbox when the solver process sleeps).
type libCtx struct {
	ctx C.Z3_context
}

func newLibCtx() *libCtx {
	return &libCtx{ctx: C.vx_mk_ctx()}
}

func (l *libCtx) eval(s string) string {
	cs := C.CString(s)
	defer C.free(unsafe.Pointer(cs))
	r := C.Z3_eval_smtlib2_string(l.ctx, cs)
	out := C.GoString(r)
	runtime.KeepAlive(l)
	return out
}

func (l *libCtx) close() {
	if l.ctx != nil {
		C.Z3_del_context(l.ctx)
		l.ctx = nil
	}
}

func Z3LibVersion() string {
	var a, b, c, d C.uint
	C.Z3_get_version(&a, &b, &c, &d)
	return itoa(int(a)) + "." + itoa(int(b)) + "." + itoa(int(c))
}

func itoa(i int) string {
	if i == 0 {
		return "0"
	}
	var b []byte
	for i > 0 {
		b = append([]byte{byte('0' + i%10)}, b...)
		i /= 10
	}
	return string(b)
}
