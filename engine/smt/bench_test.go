package smt

import (
	"testing"
	"time"
	"vx/term"
)

func TestBench(t *testing.T) {
	s, _ := New("z3lib", 10000)
	t.Log(Z3LibVersion())
	tb := term.NewTable()
	var lits []*term.Term
	for i := 0; i < 12; i++ {
		lits = append(lits, tb.Ult(tb.Var("b"+string(rune('0'+i%6)), 8), tb.Const(8, uint64(0x30+7*i))))
	}
	st := time.Now()
	N := 2000
	for k := 0; k < N; k++ {
		q := tb.Eq(tb.Var("b"+string(rune('0'+k%6)), 8), tb.Const(8, uint64(k%256)))
		x := 0
		for j := 0; j < 300000; j++ {
			x += j * j
		}
		_ = x
		s.Check(append(append([]*term.Term{}, lits...), q), nil)
	}
	t.Logf("%.3f ms/query (solver time %.3f)", time.Since(st).Seconds()*1000/float64(N), s.Time.Seconds())
	s.Close()
}
