// Package smt drives a persistent SMT solver process (z3 -in, z3-new -in, cvc5 --incremental).
// All terms are introduced as level-0 definitions; queries are check-sat-assuming over
// literals, so no push/pop bookkeeping is needed. Any "(error" line makes the answer Unknown.
package smt

import (
	"bufio"
	"fmt"
	"io"
	"os/exec"
	"strconv"
	"strings"
	"time"

	"vx/term"
)

type Result int

const (
	Unsat Result = iota
	Sat
	Unknown
)

func (r Result) String() string { return [...]string{"unsat", "sat", "unknown"}[r] }

type Solver struct {
	Kind      string // z3 | z3-new | cvc5
	cmd       *exec.Cmd
	in        io.WriteCloser
	out       *bufio.Reader
	defined   map[int]bool
	Queries   int
	SatN      int
	UnsatN    int
	UnknownN  int
	Errors    int
	Time      time.Duration
	TimeoutMs int
	ndefs     int
	Log       io.Writer
	LastError string
	Broken    bool // the context reported 'canceled' (resource limit hit): it must be restarted
	aux       *Solver // clean context for model queries (get-value is linear in the number of definitions)
	ModelQ    int
	scopes    [][]int // ids defined per open scope (popped definitions must be re-emitted)
	lib       *libCtx
	pending   []string // output lines produced by the in-process solver
}

func New(kind string, timeoutMs int) (*Solver, error) {
	s := &Solver{Kind: kind, TimeoutMs: timeoutMs}
	if err := s.start(); err != nil {
		return nil, err
	}
	return s, nil
}

func (s *Solver) start() error {
	var cmd *exec.Cmd
	switch s.Kind {
	case "z3lib":
		s.lib = newLibCtx()
		s.defined = map[int]bool{}
		s.send("(set-option :produce-models true)\n")
		if s.TimeoutMs > 0 {
			// no :timeout here: z3 4.8.12's timer threads can deadlock inside a multi-threaded host;
			// a deterministic resource limit bounds each query instead (budget = 25k units per configured ms; z3 5.1 counts faster than 4.8)
			s.send(fmt.Sprintf("(set-option :rlimit %d)\n", s.TimeoutMs*25000))
		}
		return nil
	case "z3", "":
		cmd = exec.Command("z3", "-in", "-smt2")
	case "z3-new":
		cmd = exec.Command("z3-new", "-in", "-smt2")
	case "cvc5":
		cmd = exec.Command("cvc5", "--incremental", "--lang=smt2", "--produce-models")
	default:
		return fmt.Errorf("unknown solver %q", s.Kind)
	}
	in, err := cmd.StdinPipe()
	if err != nil {
		return err
	}
	out, err := cmd.StdoutPipe()
	if err != nil {
		return err
	}
	cmd.Stderr = nil
	if err := cmd.Start(); err != nil {
		return err
	}
	s.cmd, s.in, s.out = cmd, in, bufio.NewReaderSize(out, 1<<16)
	s.defined = map[int]bool{}
	s.ndefs = 0
	s.scopes = nil
	s.send("(set-option :produce-models true)\n")
	if s.Kind == "cvc5" {
		s.send("(set-logic QF_BV)\n")
		if s.TimeoutMs > 0 {
			s.send(fmt.Sprintf("(set-option :tlimit-per %d)\n", s.TimeoutMs))
		}
	} else if s.TimeoutMs > 0 {
		s.send(fmt.Sprintf("(set-option :timeout %d)\n", s.TimeoutMs))
	}
	return nil
}

func (s *Solver) send(str string) {
	if s.Log != nil {
		io.WriteString(s.Log, str)
	}
	if s.lib != nil {
		out := s.lib.eval(str)
		for _, l := range strings.Split(out, "\n") {
			if strings.TrimSpace(l) != "" {
				s.pending = append(s.pending, l)
			}
		}
		return
	}
	io.WriteString(s.in, str)
}

// Push opens a solver scope; Assert adds a permanent (until popped) assertion in it.
func (s *Solver) Push() {
	s.send("(push 1)\n")
	s.scopes = append(s.scopes, nil)
}

func (s *Solver) Pop(n int) {
	if n <= 0 {
		return
	}
	if n > len(s.scopes) {
		n = len(s.scopes)
	}
	s.send(fmt.Sprintf("(pop %d)\n", n))
	for i := 0; i < n; i++ {
		top := s.scopes[len(s.scopes)-1]
		for _, id := range top {
			delete(s.defined, id)
		}
		s.scopes = s.scopes[:len(s.scopes)-1]
	}
}

func (s *Solver) Depth() int { return len(s.scopes) }

// emit writes the definitions of t, recording them in the current scope.
func (s *Solver) emit(t *term.Term, sb *strings.Builder) string {
	if len(s.scopes) == 0 {
		return term.Emit(t, s.defined, sb)
	}
	before := len(s.defined)
	_ = before
	rec := &s.scopes[len(s.scopes)-1]
	return term.EmitRec(t, s.defined, sb, rec)
}

func (s *Solver) Assert(t *term.Term) {
	var sb strings.Builder
	r := s.emit(t, &sb)
	sb.WriteString("(assert " + r + ")\n")
	s.send(sb.String())
}

// CheckAssuming asks whether the current assertions plus lit (nil: none) are satisfiable.
func (s *Solver) CheckAssuming(lit *term.Term) Result {
	var sb strings.Builder
	start := time.Now()
	if lit == nil {
		sb.WriteString("(check-sat)\n(echo \"@@\")\n")
	} else {
		if lit.Op == term.OConst {
			if lit.Val == 0 {
				return Unsat
			}
			sb.WriteString("(check-sat)\n(echo \"@@\")\n")
		} else {
			r := s.emit(lit, &sb)
			sb.WriteString("(check-sat-assuming (" + r + "))\n(echo \"@@\")\n")
		}
	}
	s.send(sb.String())
	res := s.readResult()
	s.Time += time.Since(start)
	s.Queries++
	switch res {
	case Sat:
		s.SatN++
	case Unsat:
		s.UnsatN++
	default:
		s.UnknownN++
	}
	return res
}

// Model solves the conjunction of lits in a clean auxiliary context and returns values for vars.
func (s *Solver) Model(lits []*term.Term, vars []*term.Term) (map[*term.Term]uint64, Result) {
	if s.aux == nil {
		a, err := New(s.Kind, s.TimeoutMs)
		if err != nil {
			return nil, Unknown
		}
		s.aux = a
	}
	a := s.aux
	start := time.Now()
	defer func() { s.Time += time.Since(start); s.ModelQ++ }()
	a.defined = map[int]bool{}
	var sb strings.Builder
	sb.WriteString("(push 1)\n")
	for _, v := range vars {
		term.Emit(v, a.defined, &sb)
	}
	for _, l := range lits {
		if l.Op == term.OConst {
			if l.Val == 0 {
				return nil, Unsat
			}
			continue
		}
		r := term.Emit(l, a.defined, &sb)
		sb.WriteString("(assert " + r + ")\n")
	}
	sb.WriteString("(check-sat)\n(echo \"@@\")\n")
	a.send(sb.String())
	res := a.readResult()
	var vals map[*term.Term]uint64
	if res == Sat {
		var err error
		vals, err = a.Values(vars)
		if err != nil {
			res = Unknown
		}
	}
	a.send("(pop 1)\n")
	a.defined = map[int]bool{}
	s.Errors += a.Errors
	a.Errors = 0
	return vals, res
}

func (s *Solver) Close() {
	if s.aux != nil {
		s.aux.Close()
		s.aux = nil
	}
	if s.lib != nil {
		s.lib.close()
		s.lib = nil
	}
	if s.cmd != nil {
		s.in.Close()
		s.cmd.Process.Kill()
		s.cmd.Wait()
		s.cmd = nil
	}
}

// Restart drops all definitions (used to bound solver memory).
func (s *Solver) Restart() error {
	s.Close()
	s.Broken = false
	return s.start()
}

func (s *Solver) NumDefs() int { return len(s.defined) }

func (s *Solver) lit(t *term.Term, neg bool, sb *strings.Builder) string {
	r := term.Emit(t, s.defined, sb)
	if t.Op == term.OConst || (t.Op != term.OVar && false) {
		// constants cannot be assumption literals; wrap below
	}
	if neg {
		return "(not " + r + ")"
	}
	return r
}

// Check asks whether the conjunction of lits (each a Bool term, possibly negated via neg[i]) is satisfiable.
func (s *Solver) Check(lits []*term.Term, neg []bool) Result {
	var sb strings.Builder
	var names []string
	for i, l := range lits {
		n := false
		if neg != nil {
			n = neg[i]
		}
		if l.Op == term.OConst {
			v := l.Val == 1
			if n {
				v = !v
			}
			if !v {
				return Unsat
			}
			continue
		}
		names = append(names, s.lit(l, n, &sb))
	}
	start := time.Now()
	sb.WriteString("(check-sat-assuming (")
	sb.WriteString(strings.Join(names, " "))
	sb.WriteString("))\n(echo \"@@\")\n")
	s.send(sb.String())
	res := s.readResult()
	s.Time += time.Since(start)
	s.Queries++
	switch res {
	case Sat:
		s.SatN++
	case Unsat:
		s.UnsatN++
	default:
		s.UnknownN++
	}
	return res
}

func (s *Solver) readUntilMarker() ([]string, bool) {
	var lines []string
	if s.lib != nil {
		for i, l := range s.pending {
			l = strings.TrimSpace(l)
			if strings.Trim(l, "\"") == "@@" {
				s.pending = s.pending[i+1:]
				return lines, true
			}
			lines = append(lines, l)
		}
		s.pending = nil
		return lines, false
	}
	for {
		line, err := s.out.ReadString('\n')
		if err != nil {
			s.Errors++
			return lines, false
		}
		line = strings.TrimSpace(line)
		if s.Log != nil {
			fmt.Fprintf(s.Log, "; <- %s\n", line)
		}
		if strings.Trim(line, "\"") == "@@" {
			return lines, true
		}
		if line != "" {
			lines = append(lines, line)
		}
	}
}

func (s *Solver) readResult() Result {
	lines, ok := s.readUntilMarker()
	if !ok {
		return Unknown
	}
	res := Unknown
	bad := false
	for _, l := range lines {
		switch {
		case l == "sat":
			res = Sat
		case l == "unsat":
			res = Unsat
		case l == "unknown":
			res = Unknown
		case strings.HasPrefix(l, "(error"):
			s.Errors++
			s.LastError = l
			bad = true
			if strings.Contains(l, "canceled") || strings.Contains(l, "resource limit") {
				s.Broken = true
			}
		}
	}
	if bad {
		return Unknown
	}
	return res
}

// Values returns the model values of the given terms after a Sat answer.
func (s *Solver) Values(ts []*term.Term) (map[*term.Term]uint64, error) {
	res := map[*term.Term]uint64{}
	var sb strings.Builder
	var q []*term.Term
	var refs []string
	for _, t := range ts {
		if t.Op == term.OConst {
			res[t] = t.Val
			continue
		}
		refs = append(refs, term.Emit(t, s.defined, &sb))
		q = append(q, t)
	}
	if len(q) == 0 {
		return res, nil
	}
	sb.WriteString("(get-value (" + strings.Join(refs, " ") + "))\n(echo \"@@\")\n")
	s.send(sb.String())
	lines, ok := s.readUntilMarker()
	if !ok {
		return nil, fmt.Errorf("solver: died")
	}
	var txt strings.Builder
	for _, l := range lines {
		if strings.HasPrefix(l, "(error") {
			s.Errors++
			return nil, fmt.Errorf("solver: %s", l)
		}
		txt.WriteString(l + "\n")
	}
	// parse: ((ref val) (ref val) ...)
	toks := tokenize(txt.String())
	// find values in order: pattern "(" ref val ")" ; val is #x.. | #b.. | true | false | (_ bvN w)
	vals := []uint64{}
	i := 0
	if len(toks) > 0 && toks[0] == "(" {
		i = 1
	}
	for i < len(toks) {
		if toks[i] != "(" {
			i++
			continue
		}
		// skip ref (may itself be a parenthesised expr)
		i++
		if i < len(toks) && toks[i] == "(" {
			d := 0
			for i < len(toks) {
				if toks[i] == "(" {
					d++
				} else if toks[i] == ")" {
					d--
					if d == 0 {
						i++
						break
					}
				}
				i++
			}
		} else {
			i++
		}
		if i >= len(toks) {
			break
		}
		v, n, err := parseVal(toks[i:])
		if err != nil {
			return nil, err
		}
		vals = append(vals, v)
		i += n
		if i < len(toks) && toks[i] == ")" {
			i++
		}
	}
	if len(vals) != len(q) {
		return nil, fmt.Errorf("solver: get-value returned %d values for %d terms: %s", len(vals), len(q), txt.String())
	}
	for k, t := range q {
		res[t] = vals[k]
	}
	return res, nil
}

func tokenize(s string) []string {
	var toks []string
	cur := strings.Builder{}
	flush := func() {
		if cur.Len() > 0 {
			toks = append(toks, cur.String())
			cur.Reset()
		}
	}
	for _, c := range s {
		switch c {
		case '(', ')':
			flush()
			toks = append(toks, string(c))
		case ' ', '\n', '\t', '\r':
			flush()
		default:
			cur.WriteRune(c)
		}
	}
	flush()
	return toks
}

func parseVal(toks []string) (uint64, int, error) {
	t := toks[0]
	switch {
	case t == "true":
		return 1, 1, nil
	case t == "false":
		return 0, 1, nil
	case strings.HasPrefix(t, "#x"):
		v, err := strconv.ParseUint(t[2:], 16, 64)
		return v, 1, err
	case strings.HasPrefix(t, "#b"):
		v, err := strconv.ParseUint(t[2:], 2, 64)
		return v, 1, err
	case t == "(" && len(toks) >= 5 && toks[1] == "_" && strings.HasPrefix(toks[2], "bv"):
		v, err := strconv.ParseUint(toks[2][2:], 10, 64)
		return v, 5, err
	}
	return 0, 0, fmt.Errorf("solver: cannot parse value %q", t)
}
