package exec

import (
	"fmt"
	"go/token"
	"go/types"
	"math"

	"golang.org/x/tools/go/ssa"
	"vx/term"
)

func (e *Exec) binop(op token.Token, xt types.Type, x, y Value, yt types.Type) Value {
	switch a := x.(type) {
	case Int:
		b, ok := y.(Int)
		if !ok {
			e.unsupported(fmt.Sprintf("binop int with %T", y))
		}
		_, signed, _ := intWidth(xt)
		return e.intBinop(op, a, b, signed, yt)
	case Bool:
		b := y.(Bool)
		switch op {
		case token.EQL:
			return e.fromBoolTerm(e.TB.Eq(e.boolTerm(a), e.boolTerm(b)))
		case token.NEQ:
			return e.fromBoolTerm(e.TB.Not(e.TB.Eq(e.boolTerm(a), e.boolTerm(b))))
		case token.AND, token.LAND:
			return e.fromBoolTerm(e.TB.And(e.boolTerm(a), e.boolTerm(b)))
		case token.OR, token.LOR:
			return e.fromBoolTerm(e.TB.Or(e.boolTerm(a), e.boolTerm(b)))
		}
	case Str:
		b := y.(Str)
		switch op {
		case token.ADD:
			return e.concat(a, b)
		case token.EQL:
			return e.fromBoolTerm(e.strEq(a, b))
		case token.NEQ:
			return e.fromBoolTerm(e.TB.Not(e.strEq(a, b)))
		case token.LSS:
			return e.fromBoolTerm(e.strLess(a, b, false))
		case token.LEQ:
			return e.fromBoolTerm(e.strLess(a, b, true))
		case token.GTR:
			return e.fromBoolTerm(e.strLess(b, a, false))
		case token.GEQ:
			return e.fromBoolTerm(e.strLess(b, a, true))
		}
	case Float:
		b := y.(Float)
		if a.Opaque || b.Opaque {
			e.unsupported("floating-point arithmetic on non-constant value")
		}
		switch op {
		case token.ADD:
			return Float{C: a.C + b.C}
		case token.SUB:
			return Float{C: a.C - b.C}
		case token.MUL:
			return Float{C: a.C * b.C}
		case token.QUO:
			return Float{C: a.C / b.C}
		case token.EQL:
			return Bool{C: a.C == b.C}
		case token.NEQ:
			return Bool{C: a.C != b.C}
		case token.LSS:
			return Bool{C: a.C < b.C}
		case token.LEQ:
			return Bool{C: a.C <= b.C}
		case token.GTR:
			return Bool{C: a.C > b.C}
		case token.GEQ:
			return Bool{C: a.C >= b.C}
		}
	default:
		switch op {
		case token.EQL:
			return e.fromBoolTerm(e.equal(x, y))
		case token.NEQ:
			return e.fromBoolTerm(e.TB.Not(e.equal(x, y)))
		}
	}
	e.unsupported(fmt.Sprintf("binop %s on %T", op, x))
	return nil
}

func (e *Exec) intBinop(op token.Token, a, b Int, signed bool, yt types.Type) Value {
	w := a.W
	if op == token.SHL || op == token.SHR {
		return e.shift(op, a, b, signed, yt)
	}
	if a.W != b.W {
		e.unsupported(fmt.Sprintf("int binop width mismatch %d %d", a.W, b.W))
	}
	if a.T == nil && b.T == nil {
		x, y := a.C, b.C
		sx, sy := int64(sxt(x, w)), int64(sxt(y, w))
		switch op {
		case token.ADD:
			return mkInt(w, x+y)
		case token.SUB:
			return mkInt(w, x-y)
		case token.MUL:
			return mkInt(w, x*y)
		case token.QUO:
			if y == 0 {
				e.goPanicRuntime("integer divide by zero")
			}
			if signed {
				if sy == -1 {
					return mkInt(w, uint64(-sx))
				}
				return mkInt(w, uint64(sx/sy))
			}
			return mkInt(w, x/y)
		case token.REM:
			if y == 0 {
				e.goPanicRuntime("integer divide by zero")
			}
			if signed {
				if sy == -1 {
					return mkInt(w, 0)
				}
				return mkInt(w, uint64(sx%sy))
			}
			return mkInt(w, x%y)
		case token.AND:
			return mkInt(w, x&y)
		case token.OR:
			return mkInt(w, x|y)
		case token.XOR:
			return mkInt(w, x^y)
		case token.AND_NOT:
			return mkInt(w, x&^y)
		case token.EQL:
			return Bool{C: x == y}
		case token.NEQ:
			return Bool{C: x != y}
		case token.LSS:
			if signed {
				return Bool{C: sx < sy}
			}
			return Bool{C: x < y}
		case token.LEQ:
			if signed {
				return Bool{C: sx <= sy}
			}
			return Bool{C: x <= y}
		case token.GTR:
			if signed {
				return Bool{C: sx > sy}
			}
			return Bool{C: x > y}
		case token.GEQ:
			if signed {
				return Bool{C: sx >= sy}
			}
			return Bool{C: x >= y}
		}
		e.unsupported("int binop " + op.String())
	}
	x, y := e.intTerm(a), e.intTerm(b)
	tb := e.TB
	switch op {
	case token.ADD:
		return e.fromTerm(tb.Add(x, y))
	case token.SUB:
		return e.fromTerm(tb.Sub(x, y))
	case token.MUL:
		return e.fromTerm(tb.Mul(x, y))
	case token.QUO, token.REM:
		if b.T != nil {
			if e.branch(tb.Eq(y, tb.Const(w, 0))) {
				e.goPanicRuntime("integer divide by zero")
			}
		} else if b.C == 0 {
			e.goPanicRuntime("integer divide by zero")
		}
		if op == token.QUO {
			if signed {
				return e.fromTerm(tb.SDiv(x, y))
			}
			return e.fromTerm(tb.UDiv(x, y))
		}
		if signed {
			return e.fromTerm(tb.SRem(x, y))
		}
		return e.fromTerm(tb.URem(x, y))
	case token.AND:
		return e.fromTerm(tb.BAnd(x, y))
	case token.OR:
		return e.fromTerm(tb.BOr(x, y))
	case token.XOR:
		return e.fromTerm(tb.BXor(x, y))
	case token.AND_NOT:
		return e.fromTerm(tb.BAnd(x, tb.BNot(y)))
	case token.EQL:
		return e.fromBoolTerm(tb.Eq(x, y))
	case token.NEQ:
		return e.fromBoolTerm(tb.Not(tb.Eq(x, y)))
	case token.LSS:
		if signed {
			return e.fromBoolTerm(tb.Slt(x, y))
		}
		return e.fromBoolTerm(tb.Ult(x, y))
	case token.LEQ:
		if signed {
			return e.fromBoolTerm(tb.Sle(x, y))
		}
		return e.fromBoolTerm(tb.Ule(x, y))
	case token.GTR:
		if signed {
			return e.fromBoolTerm(tb.Slt(y, x))
		}
		return e.fromBoolTerm(tb.Ult(y, x))
	case token.GEQ:
		if signed {
			return e.fromBoolTerm(tb.Sle(y, x))
		}
		return e.fromBoolTerm(tb.Ule(y, x))
	}
	e.unsupported("int binop " + op.String())
	return nil
}

func (e *Exec) shift(op token.Token, a, b Int, signed bool, yt types.Type) Value {
	w := a.W
	_, ysigned, _ := intWidth(yt)
	if b.T == nil {
		cnt := b.C
		if ysigned && int64(sxt(b.C, b.W)) < 0 {
			e.goPanicRuntime("negative shift amount")
		}
		if a.T == nil {
			switch {
			case op == token.SHL:
				if cnt >= uint64(w) {
					return mkInt(w, 0)
				}
				return mkInt(w, a.C<<cnt)
			case signed:
				if cnt >= uint64(w) {
					cnt = uint64(w - 1)
				}
				return mkInt(w, uint64(int64(sxt(a.C, w))>>cnt))
			default:
				if cnt >= uint64(w) {
					return mkInt(w, 0)
				}
				return mkInt(w, a.C>>cnt)
			}
		}
		ct := e.TB.Const(w, minu(cnt, uint64(w)))
		switch {
		case op == token.SHL:
			return e.fromTerm(e.TB.Shl(a.T, ct))
		case signed:
			return e.fromTerm(e.TB.AShr(a.T, ct))
		default:
			return e.fromTerm(e.TB.LShr(a.T, ct))
		}
	}
	// symbolic count: bring to width w, saturating
	if ysigned {
		if e.branch(e.TB.Slt(b.T, e.TB.Const(b.W, 0))) {
			e.goPanicRuntime("negative shift amount")
		}
	}
	var ct *term.Term
	if b.W > w {
		big := e.TB.Ule(e.TB.Const(b.W, uint64(w)), b.T)
		ct = e.TB.Ite(big, e.TB.Const(w, uint64(w)), e.TB.Extract(b.T, w-1, 0))
	} else {
		ct = e.TB.ZExt(b.T, w)
	}
	at := e.intTerm(a)
	switch {
	case op == token.SHL:
		return e.fromTerm(e.TB.Shl(at, ct))
	case signed:
		return e.fromTerm(e.TB.AShr(at, ct))
	default:
		return e.fromTerm(e.TB.LShr(at, ct))
	}
}

func minu(a, b uint64) uint64 {
	if a < b {
		return a
	}
	return b
}

// ---------------------------------------------------------------- strings

func (e *Exec) concat(a, b Str) Str {
	if a.Len == 0 {
		return b
	}
	if b.Len == 0 {
		return a
	}
	el := make([]Value, 0, a.Len+b.Len)
	el = append(el, e.strBytes(a)...)
	el = append(el, e.strBytes(b)...)
	o := e.newObj(&Array{E: el}, "concat")
	return Str{A: ArrRef{Obj: o}, Len: len(el)}
}

func (e *Exec) bytesEq(a, b []Value) *term.Term {
	res := e.TB.True
	for i := range a {
		x, y := a[i].(Int), b[i].(Int)
		if x.T == nil && y.T == nil {
			if x.C != y.C {
				return e.TB.False
			}
			continue
		}
		res = e.TB.And(res, e.TB.Eq(e.intTerm(x), e.intTerm(y)))
		if res == e.TB.False {
			return res
		}
	}
	return res
}

func (e *Exec) strEq(a, b Str) *term.Term {
	if a.Len != b.Len {
		return e.TB.False
	}
	if a.Len == 0 {
		return e.TB.True
	}
	if a.A.Obj == b.A.Obj && a.Off == b.Off && samePath(a.A.Path, b.A.Path) {
		return e.TB.True
	}
	return e.bytesEq(e.strBytes(a), e.strBytes(b))
}

// strLess: a < b (or a <= b when orEq) as a term.
func (e *Exec) strLess(a, b Str, orEq bool) *term.Term {
	x, y := e.strBytes(a), e.strBytes(b)
	n := len(x)
	if len(y) < n {
		n = len(y)
	}
	// result if all first n bytes equal
	var tail *term.Term
	if orEq {
		tail = e.TB.Bool(len(x) <= len(y))
	} else {
		tail = e.TB.Bool(len(x) < len(y))
	}
	res := tail
	for i := n - 1; i >= 0; i-- {
		xi, yi := e.intTerm(x[i].(Int)), e.intTerm(y[i].(Int))
		res = e.TB.Ite(e.TB.Eq(xi, yi), res, e.TB.Ult(xi, yi))
	}
	return res
}

// ---------------------------------------------------------------- equality

func (e *Exec) equal(x, y Value) *term.Term {
	switch a := x.(type) {
	case Int:
		b, ok := y.(Int)
		if !ok {
			return e.TB.False
		}
		if a.T == nil && b.T == nil {
			return e.TB.Bool(a.C == b.C && a.W == b.W)
		}
		return e.TB.Eq(e.intTerm(a), e.intTerm(b))
	case Bool:
		b, ok := y.(Bool)
		if !ok {
			return e.TB.False
		}
		return e.TB.Eq(e.boolTerm(a), e.boolTerm(b))
	case Str:
		b, ok := y.(Str)
		if !ok {
			return e.TB.False
		}
		return e.strEq(a, b)
	case Float:
		b, ok := y.(Float)
		if !ok || a.Opaque || b.Opaque {
			e.unsupported("float equality")
		}
		return e.TB.Bool(a.C == b.C)
	case Ptr:
		b, ok := y.(Ptr)
		if !ok {
			return e.TB.False
		}
		for _, s := range a.Path {
			if s.T != nil {
				e.unsupported("pointer equality with symbolic index")
			}
		}
		return e.TB.Bool(a.Obj == b.Obj && samePath(a.Path, b.Path))
	case Iface:
		b, ok := y.(Iface)
		if !ok {
			return e.TB.False
		}
		if a.T == nil || b.T == nil {
			return e.TB.Bool(a.T == nil && b.T == nil)
		}
		if !types.Identical(a.T, b.T) {
			return e.TB.False
		}
		if !types.Comparable(a.T) {
			e.goPanicRuntime("comparing uncomparable type " + a.T.String())
		}
		return e.equal(a.V, b.V)
	case *Struct:
		b, ok := y.(*Struct)
		if !ok || len(a.F) != len(b.F) {
			return e.TB.False
		}
		res := e.TB.True
		for i := range a.F {
			res = e.TB.And(res, e.equal(a.F[i], b.F[i]))
		}
		return res
	case *Array:
		b, ok := y.(*Array)
		if !ok || len(a.E) != len(b.E) {
			return e.TB.False
		}
		res := e.TB.True
		for i := range a.E {
			res = e.TB.And(res, e.equal(a.E[i], b.E[i]))
		}
		return res
	case Slice:
		b, ok := y.(Slice)
		if ok && (a.A.Obj == nil || b.A.Obj == nil) {
			return e.TB.Bool(a.A.Obj == nil && b.A.Obj == nil)
		}
	case MapV:
		b, ok := y.(MapV)
		if ok && (a.M == nil || b.M == nil) {
			return e.TB.Bool(a.M == nil && b.M == nil)
		}
	case ChanV:
		b, ok := y.(ChanV)
		if ok {
			return e.TB.Bool(a.C == b.C)
		}
	case Closure:
		b, ok := y.(Closure)
		if ok && ((a.Fn == nil && a.Nat == nil) || (b.Fn == nil && b.Nat == nil)) {
			return e.TB.Bool(a.Fn == nil && a.Nat == nil && b.Fn == nil && b.Nat == nil)
		}
	case nil:
		return e.TB.Bool(y == nil)
	}
	e.unsupported(fmt.Sprintf("equality of %T and %T", x, y))
	return nil
}

// ---------------------------------------------------------------- conversions

func (e *Exec) convert(x Value, from, to types.Type) Value {
	fu, tu := from.Underlying(), to.Underlying()
	if tp, ok := tu.(*types.TypeParam); ok {
		_ = tp
		e.unsupported("conversion to type parameter")
	}
	switch v := x.(type) {
	case Int:
		if tw, _, ok := intWidth(tu); ok {
			_, fsigned, _ := intWidth(fu)
			if v.T == nil {
				c := v.C
				if fsigned {
					c = sxt(c, v.W)
				}
				return mkInt(tw, c)
			}
			if tw <= v.W {
				return e.fromTerm(e.TB.Extract(v.T, tw-1, 0))
			}
			if fsigned {
				return e.fromTerm(e.TB.SExt(v.T, tw))
			}
			return e.fromTerm(e.TB.ZExt(v.T, tw))
		}
		if isString(tu) { // string(rune)
			_, fsigned, _ := intWidth(fu)
			if v.T != nil {
				return e.runeToString(v, fsigned)
			}
			c := int64(v.C)
			if fsigned {
				c = int64(sxt(v.C, v.W))
			}
			if c < 0 || c > 0x10FFFF {
				c = 0xFFFD
			}
			return e.strFromGo(string(rune(c)))
		}
		if isFloat(tu) {
			if v.T != nil {
				return Float{Opaque: true}
			}
			_, fsigned, _ := intWidth(fu)
			if fsigned {
				return Float{C: float64(int64(sxt(v.C, v.W)))}
			}
			return Float{C: float64(v.C)}
		}
		if b, ok := tu.(*types.Basic); ok && b.Kind() == types.UnsafePointer {
			e.unsupported("uintptr -> unsafe.Pointer")
		}
	case Float:
		if isFloat(tu) {
			if b := tu.(*types.Basic); b.Kind() == types.Float32 && !v.Opaque {
				return Float{C: float64(float32(v.C))}
			}
			return v
		}
		if tw, tsigned, ok := intWidth(tu); ok {
			if v.Opaque {
				e.unsupported("float -> int of non-constant")
			}
			if tsigned {
				return mkInt(tw, uint64(int64(v.C)))
			}
			if v.C < 0 || math.IsNaN(v.C) {
				return mkInt(tw, uint64(int64(v.C)))
			}
			return mkInt(tw, uint64(v.C))
		}
	case Str:
		if isString(tu) {
			return v
		}
		if sl, ok := tu.(*types.Slice); ok {
			if w, _, ok := intWidth(sl.Elem()); ok && w == 8 { // []byte(s)
				if v.Len == 0 {
					// []byte("") is non-nil, empty
					o := e.newArrObj(0, Int{W: 8}, "conv")
					return Slice{A: ArrRef{Obj: o}}
				}
				bs := e.strBytes(v)
				el := make([]Value, len(bs))
				copy(el, bs)
				o := e.newObj(&Array{E: el}, "conv")
				o.ownsArr = true
				return Slice{A: ArrRef{Obj: o}, Len: len(el), Cap: len(el)}
			}
			e.unsupported("string -> []rune")
		}
	case Slice:
		if isString(tu) { // string([]byte)
			return e.strFromBytes(e.sliceElems(v))
		}
		if _, ok := tu.(*types.Slice); ok {
			return v
		}
	case Ptr:
		// pointer <-> unsafe.Pointer, *T -> *U
		return v
	}
	if types.Identical(fu, tu) {
		return x
	}
	e.unsupported(fmt.Sprintf("convert %s -> %s", from, to))
	return nil
}

// ---------------------------------------------------------------- maps

func (e *Exec) mapFind(m *MapObj, k Value) int {
	for i := range m.Ents {
		c := e.equal(k, m.Ents[i].K)
		if c.Op == term.OConst {
			if c.Val == 1 {
				return i
			}
			continue
		}
		if e.branch(c) {
			return i
		}
	}
	return -1
}

func (e *Exec) lookup(in *ssa.Lookup, x, k Value) Value {
	switch m := x.(type) {
	case Str:
		return e.indexValue(m, k, in.Index.Type())
	case MapSel:
		var val, pres *term.Term
		for j := len(m.Maps) - 1; j >= 0; j-- {
			mj := m.Maps[j]
			if mj.M == nil || mj.M.TM == nil {
				e.unsupported("symbolic selection among non-term maps")
			}
			e.locksetMapAccess(mj.M, false)
			v, p := e.tmLookup(mj.M.TM, e.keyTerm(mj.M.TM, k))
			if val == nil {
				val, pres = v, p
			} else {
				c := e.TB.Eq(m.Idx, e.TB.Const(m.Idx.W, uint64(j)))
				val, pres = e.TB.Ite(c, v, val), e.TB.Ite(c, p, pres)
			}
		}
		if in.CommaOk {
			return Tuple{e.termVal(val), e.fromBoolTerm(pres)}
		}
		return e.termVal(val)
	case MapV:
		if m.M != nil {
			e.locksetMapAccess(m.M, false)
		}
		if m.M != nil && m.M.TM != nil {
			v, p := e.tmLookup(m.M.TM, e.keyTerm(m.M.TM, k))
			if in.CommaOk {
				return Tuple{e.termVal(v), e.fromBoolTerm(p)}
			}
			return e.termVal(v)
		}
		vt := in.X.Type().Underlying().(*types.Map).Elem()
		i := -1
		if m.M != nil {
			i = e.mapFind(m.M, k)
		}
		var v Value
		if i >= 0 {
			v = m.M.Ents[i].V
		} else {
			v = e.zero(vt)
		}
		if in.CommaOk {
			return Tuple{v, Bool{C: i >= 0}}
		}
		return v
	}
	e.unsupported(fmt.Sprintf("Lookup in %T", x))
	return nil
}

func (e *Exec) mapUpdate(mv, k, v Value) {
	if ms, ok := mv.(MapSel); ok {
		for j, mj := range ms.Maps {
			if mj.M == nil {
				e.unsupported("symbolic selection including a nil map")
			}
			e.monWriteMap(mj.M)
			e.tmUpdate(mj.M.TM, e.TB.Eq(ms.Idx, e.TB.Const(ms.Idx.W, uint64(j))), e.keyTerm(mj.M.TM, k), e.valTerm(v), true)
		}
		return
	}
	if m0, ok := mv.(MapV); ok && m0.M != nil && m0.M.TM != nil {
		e.monWriteMap(m0.M)
		e.tmUpdate(m0.M.TM, e.TB.True, e.keyTerm(m0.M.TM, k), e.valTerm(v), true)
		return
	}
	m, ok := mv.(MapV)
	if !ok {
		e.unsupported(fmt.Sprintf("MapUpdate on %T", mv))
	}
	if m.M == nil {
		e.goPanicRuntime("assignment to entry in nil map")
	}
	e.monWriteMap(m.M)
	i := e.mapFind(m.M, k)
	if i >= 0 {
		m.M.Ents[i].V = v
		return
	}
	m.M.Ents = append(m.M.Ents, MapEnt{k, v})
}

func (e *Exec) mapDelete(mv, k Value) {
	if ms, ok := mv.(MapSel); ok {
		for j, mj := range ms.Maps {
			e.monWriteMap(mj.M)
			e.tmUpdate(mj.M.TM, e.TB.Eq(ms.Idx, e.TB.Const(ms.Idx.W, uint64(j))), e.keyTerm(mj.M.TM, k), e.tmZero(mj.M.TM), false)
		}
		return
	}
	if m0, ok := mv.(MapV); ok && m0.M != nil && m0.M.TM != nil {
		e.monWriteMap(m0.M)
		e.tmUpdate(m0.M.TM, e.TB.True, e.keyTerm(m0.M.TM, k), e.tmZero(m0.M.TM), false)
		return
	}
	m := mv.(MapV)
	if m.M == nil {
		return
	}
	e.monWriteMap(m.M)
	i := e.mapFind(m.M, k)
	if i >= 0 {
		m.M.Ents = append(append([]MapEnt{}, m.M.Ents[:i]...), m.M.Ents[i+1:]...)
	}
}

// ---------------------------------------------------------------- range

type rangeIter struct {
	str  *Str
	m    *MapObj
	ents []MapEnt
	pos  int
}

func (e *Exec) rangeIter(x Value) Value {
	switch v := x.(type) {
	case Str:
		return &rangeIter{str: &v}
	case MapV:
		it := &rangeIter{}
		if v.M != nil {
			it.m = v.M
			it.ents = append([]MapEnt{}, v.M.Ents...)
		}
		return it
	}
	e.unsupported(fmt.Sprintf("range over %T", x))
	return nil
}

func (e *Exec) next(in *ssa.Next, itv Value) Value {
	it := itv.(*rangeIter)
	if in.IsString {
		s := *it.str
		if it.pos >= s.Len {
			return Tuple{Bool{C: false}, Int{W: 64}, Int{W: 32}}
		}
		// decode via the real utf8.DecodeRuneInString
		utf8pkg := e.P.Prog.ImportedPackage("unicode/utf8")
		if utf8pkg == nil {
			e.unsupported("range over string: unicode/utf8 not loaded")
		}
		fn := utf8pkg.Func("DecodeRuneInString")
		sub := Str{A: s.A, Off: s.Off + it.pos, Len: s.Len - it.pos}
		r := e.callFunction(fn, []Value{sub}, nil, nil).(Tuple)
		i := it.pos
		it.pos += e.concInt(r[1])
		return Tuple{Bool{C: true}, mkInt(64, uint64(i)), r[0]}
	}
	for it.pos < len(it.ents) {
		en := it.ents[it.pos]
		it.pos++
		// skip entries deleted during iteration (by key identity)
		alive := false
		for _, cur := range it.m.Ents {
			if e.identical(cur.K, en.K) {
				alive = true
				en = cur
				break
			}
		}
		if alive {
			return Tuple{Bool{C: true}, en.K, en.V}
		}
	}
	mt := in.Iter.(*ssa.Range).X.Type().Underlying().(*types.Map)
	return Tuple{Bool{C: false}, e.zero(mt.Key()), e.zero(mt.Elem())}
}

// ---------------------------------------------------------------- channels (sequential semantics)

func (e *Exec) chanSend(cv, v Value) {
	c := cv.(ChanV).C
	if c == nil {
		panic(pathEnd{"deadlock", "send on nil channel"})
	}
	if c.Closed {
		e.goPanicRuntime("send on closed channel")
	}
	if len(c.Buf) < c.Cap {
		c.Buf = append(c.Buf, v)
		return
	}
	panic(pathEnd{"deadlock", "send would block (no other goroutine in Engine 1)"})
}

func (e *Exec) chanRecv(cv Value, commaOk bool, t types.Type) Value {
	c := cv.(ChanV).C
	if c == nil {
		panic(pathEnd{"deadlock", "receive on nil channel"})
	}
	if len(c.Buf) > 0 {
		v := c.Buf[0]
		c.Buf = append([]Value{}, c.Buf[1:]...)
		if commaOk {
			return Tuple{v, Bool{C: true}}
		}
		return v
	}
	if c.Closed {
		if commaOk {
			return Tuple{e.zero(t.(*types.Tuple).At(0).Type()), Bool{C: false}}
		}
		return e.zero(t)
	}
	panic(pathEnd{"deadlock", "receive would block (no other goroutine in Engine 1)"})
}

func (e *Exec) selectStmt(fr *frame, in *ssa.Select) Value {
	// result tuple: (index int, recvOk bool, r_0 T_0, ... r_n-1 T_n-1) for receive states
	var ready []int
	for i, st := range in.States {
		c := e.get(fr, st.Chan).(ChanV).C
		if c == nil {
			continue
		}
		if st.Dir == types.SendOnly {
			if c.Closed || len(c.Buf) < c.Cap {
				ready = append(ready, i)
			}
		} else if len(c.Buf) > 0 || c.Closed {
			ready = append(ready, i)
		}
	}
	tup := in.Type().(*types.Tuple)
	res := make(Tuple, tup.Len())
	for i := 0; i < tup.Len(); i++ {
		res[i] = e.zero(tup.At(i).Type())
	}
	if len(ready) == 0 {
		if !in.Blocking {
			res[0] = mkInt(64, ^uint64(0)) // -1: default
			return res
		}
		panic(pathEnd{"deadlock", "select would block (no other goroutine in Engine 1)"})
	}
	k := ready[e.pick(len(ready))]
	st := in.States[k]
	res[0] = mkInt(64, uint64(k))
	if st.Dir == types.SendOnly {
		e.chanSend(e.get(fr, st.Chan), e.get(fr, st.Send))
		return res
	}
	// position of this receive among receive states
	ri := 2
	for i := 0; i < k; i++ {
		if in.States[i].Dir == types.RecvOnly {
			ri++
		}
	}
	c := e.get(fr, st.Chan).(ChanV).C
	if len(c.Buf) > 0 {
		res[ri] = c.Buf[0]
		c.Buf = append([]Value{}, c.Buf[1:]...)
		res[1] = Bool{C: true}
	} else {
		res[1] = Bool{C: false}
	}
	return res
}

// runeToString implements string(r) for a symbolic integer r: forks on the UTF-8 length class.
func (e *Exec) runeToString(v Int, signed bool) Str {
	tb := e.TB
	var r *term.Term // 32-bit code point
	switch {
	case v.W == 32:
		r = v.T
	case v.W < 32:
		if signed {
			r = tb.SExt(v.T, 32)
		} else {
			r = tb.ZExt(v.T, 32)
		}
	default:
		// out of int32 range -> U+FFFD
		hi := tb.Extract(v.T, 63, 31)
		inRange := tb.Or(tb.Eq(hi, tb.Const(33, 0)), tb.False)
		if !e.branch(inRange) {
			return e.strFromGo("\uFFFD")
		}
		r = tb.Extract(v.T, 31, 0)
	}
	c := func(x uint64) *term.Term { return tb.Const(32, x) }
	b8 := func(t *term.Term) Value { return e.fromTerm(tb.Extract(t, 7, 0)) }
	if e.branch(tb.Ult(r, c(0x80))) {
		return e.strFromBytes([]Value{b8(r)})
	}
	if e.branch(tb.Ult(r, c(0x800))) {
		return e.strFromBytes([]Value{
			b8(tb.BOr(c(0xC0), tb.LShr(r, c(6)))),
			b8(tb.BOr(c(0x80), tb.BAnd(r, c(0x3F))))})
	}
	bad := tb.Or(tb.Ult(c(0x10FFFF), r), tb.And(tb.Ule(c(0xD800), r), tb.Ule(r, c(0xDFFF))))
	if e.branch(bad) {
		return e.strFromGo("\uFFFD")
	}
	if e.branch(tb.Ult(r, c(0x10000))) {
		return e.strFromBytes([]Value{
			b8(tb.BOr(c(0xE0), tb.LShr(r, c(12)))),
			b8(tb.BOr(c(0x80), tb.BAnd(tb.LShr(r, c(6)), c(0x3F)))),
			b8(tb.BOr(c(0x80), tb.BAnd(r, c(0x3F))))})
	}
	return e.strFromBytes([]Value{
		b8(tb.BOr(c(0xF0), tb.LShr(r, c(18)))),
		b8(tb.BOr(c(0x80), tb.BAnd(tb.LShr(r, c(12)), c(0x3F)))),
		b8(tb.BOr(c(0x80), tb.BAnd(tb.LShr(r, c(6)), c(0x3F)))),
		b8(tb.BOr(c(0x80), tb.BAnd(r, c(0x3F))))})
}
