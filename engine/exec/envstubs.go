package exec

import (
	"go/types"
	"sort"
	"strconv"

	"golang.org/x/tools/go/ssa"
)

// Environment stubs: process environment and a tiny read-only file map, both set by the harness
// (vxSetEnv / vxWriteFile). Anything not set is absent.

func (e *Exec) envMap() map[string]Str {
	m, ok := e.extra["env"].(map[string]Str)
	if !ok {
		m = map[string]Str{}
		e.extra["env"] = m
	}
	return m
}

func (e *Exec) fileMap() map[string]Slice {
	m, ok := e.extra["files"].(map[string]Slice)
	if !ok {
		m = map[string]Slice{}
		e.extra["files"] = m
	}
	return m
}

func (e *Exec) concStr(v Value, what string) string {
	s, ok := e.goString(v.(Str))
	if !ok {
		e.unsupported(what + ": symbolic name")
	}
	return s
}

// errorValue builds an error (errors.errorString) with the given text.
func (e *Exec) errorValue(msg string) Value {
	pkg := e.P.Prog.ImportedPackage("errors")
	if pkg == nil {
		e.unsupported("errors package not loaded")
	}
	return e.callFunction(pkg.Func("New"), []Value{e.strFromGo(msg)}, nil, nil)
}

func init() {
	vxAPI["vxSetEnv"] = func(e *Exec, fn *ssa.Function, a []Value) Value {
		e.envMap()[e.concStr(a[0], "vxSetEnv")] = a[1].(Str)
		return nil
	}
	vxAPI["vxUnsetEnv"] = func(e *Exec, fn *ssa.Function, a []Value) Value {
		delete(e.envMap(), e.concStr(a[0], "vxUnsetEnv"))
		return nil
	}
	vxAPI["vxWriteFile"] = func(e *Exec, fn *ssa.Function, a []Value) Value {
		name := "/vxfs/" + e.concStr(a[0], "vxWriteFile")
		e.fileMap()[name] = a[1].(Slice)
		return e.strFromGo(name)
	}
	reg("os.LookupEnv", func(e *Exec, fn *ssa.Function, a []Value) Value {
		k, ok := e.goString(a[0].(Str))
		if !ok {
			e.unsupported("os.LookupEnv with symbolic name")
		}
		if v, ok := e.envMap()[k]; ok {
			return Tuple{v, Bool{C: true}}
		}
		return Tuple{Str{}, Bool{C: false}}
	})
	reg("os.Getenv", func(e *Exec, fn *ssa.Function, a []Value) Value {
		k, ok := e.goString(a[0].(Str))
		if !ok {
			e.unsupported("os.Getenv with symbolic name")
		}
		return e.envMap()[k]
	})
	reg("os.UserHomeDir", func(e *Exec, fn *ssa.Function, a []Value) Value {
		return Tuple{e.strFromGo("/vxhome"), Iface{}}
	})
	reg("os.ReadFile", func(e *Exec, fn *ssa.Function, a []Value) Value {
		if k, ok := e.goString(a[0].(Str)); ok {
			if data, ok := e.fileMap()[k]; ok {
				// return a copy
				el := append([]Value{}, e.sliceElems(data)...)
				o := e.newObj(&Array{E: el}, "os.ReadFile")
				o.ownsArr = true
				return Tuple{Slice{A: ArrRef{Obj: o}, Len: len(el), Cap: len(el)}, Iface{}}
			}
		}
		// any other name (including symbolic ones): no such file in the stub file system
		return Tuple{Slice{}, e.errorValue("open: no such file or directory (vx stub file system)")}
	})
}

var _ = types.Typ

func init() {
	reg("github.com/whoisnian/glb/httpd.nameOfFunc", func(e *Exec, fn *ssa.Function, a []Value) Value {
		return e.strFromGo("vx.handler")
	})
	reg("crypto/rand.Read", func(e *Exec, fn *ssa.Function, a []Value) Value {
		s := a[0].(Slice)
		for i := 0; i < s.Len; i++ {
			e.store(e.elemPtr(s.A, s.Off+i), mkInt(8, uint64(0x5a+i*37)))
		}
		return Tuple{mkInt(64, uint64(s.Len)), Iface{}}
	})
}

func init() {
	// net/http.Error by its contract on the wrapped writer
	reg("net/http.Error", func(e *Exec, fn *ssa.Function, a []Value) Value {
		w := a[0].(Iface)
		if w.T == nil {
			e.goPanicRuntime("invalid memory address or nil pointer dereference")
		}
		it := fn.Params[0].Type().Underlying().(*types.Interface)
		call := func(name string, args ...Value) Value {
			for i := 0; i < it.NumMethods(); i++ {
				if it.Method(i).Name() == name {
					return e.callFunction(e.lookupMethod(w.T, it.Method(i)), append([]Value{w.V}, args...), nil, nil)
				}
			}
			e.unsupported("http.Error stub: no method " + name)
			return nil
		}
		call("Header")
		call("WriteHeader", a[2])
		msg := e.concat(a[1].(Str), e.strFromGo("\n"))
		call("Write", e.convert(msg, types.Typ[types.String], types.NewSlice(types.Typ[types.Byte])))
		return nil
	})
}

// floating point is not modelled symbolically: strconv's float conversions are computed natively on
// concrete operands (a symbolic operand ends the path as unsupported)
func init() {
	reg("strconv.ParseFloat", func(e *Exec, fn *ssa.Function, a []Value) Value {
		s, ok := e.goString(a[0].(Str))
		if !ok {
			e.unsupported("strconv.ParseFloat of a symbolic string (floating point is not modelled)")
		}
		f, err := strconv.ParseFloat(s, e.concInt(a[1]))
		if err != nil {
			return Tuple{Float{C: f}, e.errorValue(err.Error())}
		}
		return Tuple{Float{C: f}, Iface{}}
	})
	reg("strconv.FormatFloat", func(e *Exec, fn *ssa.Function, a []Value) Value {
		f := a[0].(Float)
		if f.Opaque {
			e.unsupported("strconv.FormatFloat of a non-constant float")
		}
		return e.strFromGo(strconv.FormatFloat(f.C, byte(e.concInt(a[1])), e.concInt(a[2]), e.concInt(a[3])))
	})
	reg("strconv.AppendFloat", func(e *Exec, fn *ssa.Function, a []Value) Value {
		f := a[1].(Float)
		if f.Opaque {
			e.unsupported("strconv.AppendFloat of a non-constant float")
		}
		txt := strconv.FormatFloat(f.C, byte(e.concInt(a[2])), e.concInt(a[3]), e.concInt(a[4]))
		s := a[0].(Slice)
		el := append(append([]Value{}, e.sliceElems(s)...), e.strBytes(e.strFromGo(txt))...)
		o := e.newObj(&Array{E: el}, "AppendFloat")
		o.ownsArr = true
		return Slice{A: ArrRef{Obj: o}, Len: len(el), Cap: len(el)}
	})
}

// os.Environ / syscall.Environ: the entries of the stub environment, sorted by name, as "name=value" strings (the
// value part may be symbolic).
func init() {
	environ := func(e *Exec, fn *ssa.Function, a []Value) Value {
		m := e.envMap()
		names := make([]string, 0, len(m))
		for k := range m {
			names = append(names, k)
		}
		sort.Strings(names)
		el := make([]Value, 0, len(names))
		for _, k := range names {
			el = append(el, e.concat(e.strFromGo(k+"="), m[k]))
		}
		o := e.newObj(&Array{E: el}, "os.Environ")
		o.ownsArr = true
		return Slice{A: ArrRef{Obj: o}, Len: len(el), Cap: len(el)}
	}
	reg("os.Environ", environ)
	reg("syscall.Environ", environ)
}
