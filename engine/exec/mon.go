package exec

import (
	"fmt"

	"golang.org/x/tools/go/ssa"
)


// Monitors: write-set / freshness tracking and lock-set tracking (DESIGN 2.4).

type monitor struct {
	epoch   int
	allowed map[*Obj]bool
	allowedMaps map[*MapObj]bool
	writes  []string // offending writes to pre-existing objects
	watch   map[*Obj]lockKey
	lockBad []string
}

func (e *Exec) monRead(p Ptr) {
	if e.lockWatch != nil {
		e.locksetAccess(p, false)
	}
}

func (e *Exec) monWrite(p Ptr) {
	if p.Obj.Frozen {
		e.unsupported("write to shared (once-initialised) stdlib state: " + p.Obj.Site)
	}
	if e.mon != nil {
		e.mon.noteWrite(e, p.Obj, pathKey(p.Path))
	}
	if e.lockWatch != nil {
		e.locksetAccess(p, true)
	}
}

func (e *Exec) monWriteMap(m *MapObj) {
	e.locksetMapAccess(m, true)
	if m.Frozen {
		e.unsupported("write to shared (once-initialised) stdlib map")
	}
	if e.mon != nil && m.Epoch < e.mon.epoch {
		if !e.mon.allowedMaps[m] {
			e.mon.writes = append(e.mon.writes, "map#"+itoa(m.ID))
		}
	}
}

func (m *monitor) noteWrite(e *Exec, o *Obj, path string) {
	if o.Epoch >= m.epoch || o.Pool && o.PoolEpoch >= m.epoch {
		return
	}
	// regrown copies of objects owned in this frame
	for f := o.From; f != nil; f = f.From {
		if f.Epoch >= m.epoch {
			return
		}
	}
	if m.allowed[o] {
		return
	}
	m.writes = append(m.writes, o.Site+path)
}

func itoa(i int) string {
	if i == 0 {
		return "0"
	}
	neg := i < 0
	if neg {
		i = -i
	}
	var b []byte
	for i > 0 {
		b = append([]byte{byte('0' + i%10)}, b...)
		i /= 10
	}
	if neg {
		b = append([]byte{'-'}, b...)
	}
	return string(b)
}

func (e *Exec) locksetAccess(p Ptr, write bool) {
	lw := e.lockWatch
	if lw.paused {
		return
	}
	mu, ok := lw.objs[p.Obj]
	if !ok {
		return
	}
	pk := pathKey(p.Path)
	for _, ex := range lw.exempt {
		if len(pk) >= len(ex) && pk[:len(ex)] == ex {
			return
		}
	}
	lw.accesses++
	st := e.locks[mu]
	if e.atomicDepth > 0 {
		// an atomic access is not a data race, but state read atomically OUTSIDE the critical section can be
		// stale when the section runs: reported as a separate category (confirmed natively before it counts)
		if st == 0 {
			lw.bad = append(lw.bad, "atomic access of guarded field "+p.Obj.Site+pk+" outside the critical section")
		}
		return
	}
	if (write && st != -1) || (!write && st == 0) {
		kind := "read"
		if write {
			kind = "write"
		}
		held := "no lock held"
		if st > 0 {
			held = "only a read lock held"
		}
		lw.bad = append(lw.bad, kind+" of "+p.Obj.Site+pk+" with "+held)
	}
}

func (e *Exec) locksetMapAccess(m *MapObj, write bool) {
	lw := e.lockWatch
	if lw == nil || lw.paused {
		return
	}
	mu, ok := lw.maps[m]
	if !ok {
		return
	}
	lw.accesses++
	st := e.locks[mu]
	if (write && st != -1) || (!write && st == 0) {
		kind := "read"
		if write {
			kind = "write"
		}
		lw.bad = append(lw.bad, fmt.Sprintf("%s of map#%d without a sufficient lock", kind, m.ID))
	}
}

type lockWatch struct {
	objs     map[*Obj]lockKey
	maps     map[*MapObj]lockKey
	exempt   []string
	bad      []string
	accesses int
	paused   bool
}

func init() {
	// write-set monitor: vxFrameBegin() opens a window; vxFrameWrites() closes it and returns how many
	// stores inside the window went to objects that existed before it (and were not handed out by a
	// sync.Pool inside it, nor regrown copies of such objects)
	vxAPI["vxFrameBegin"] = func(e *Exec, fn *ssa.Function, a []Value) Value {
		e.epoch++
		e.mon = &monitor{epoch: e.epoch, allowed: map[*Obj]bool{}, allowedMaps: map[*MapObj]bool{}}
		return nil
	}
	vxAPI["vxFrameAllow"] = func(e *Exec, fn *ssa.Function, a []Value) Value {
		if e.mon != nil {
			if iv, ok := a[0].(Iface); ok {
				if p, ok := iv.V.(Ptr); ok && p.Obj != nil {
					e.mon.allowed[p.Obj] = true
				}
			}
		}
		return nil
	}
	vxAPI["vxFrameWrites"] = func(e *Exec, fn *ssa.Function, a []Value) Value {
		if e.mon == nil {
			return mkInt(64, 0)
		}
		n := len(e.mon.writes)
		for _, w := range e.mon.writes {
			e.tags = append(e.tags, "write to pre-existing "+w)
		}
		e.mon = nil
		return mkInt(64, uint64(n))
	}
	// vxLocksetWatch(obj any, mu any): from now on every plain access to a field of *obj must happen
	// while *mu is held in a sufficient mode (write: Lock; read: Lock or RLock)
	vxAPI["vxLocksetWatch"] = func(e *Exec, fn *ssa.Function, a []Value) Value {
		if e.lockWatch == nil {
			e.lockWatch = &lockWatch{objs: map[*Obj]lockKey{}, maps: map[*MapObj]lockKey{}}
		}
		mu := e.lockKeyOf(a[1].(Iface).V)
		switch x := a[0].(Iface).V.(type) {
		case Ptr:
			e.lockWatch.objs[x.Obj] = mu
		case MapV:
			if x.M != nil {
				e.lockWatch.maps[x.M] = mu
			}
		default:
			e.unsupported("vxLocksetWatch: unsupported object")
		}
		return nil
	}
	vxAPI["vxLocksetExempt"] = func(e *Exec, fn *ssa.Function, a []Value) Value {
		s, _ := e.goString(a[0].(Str))
		if e.lockWatch != nil {
			e.lockWatch.exempt = append(e.lockWatch.exempt, s)
		}
		return nil
	}
	// vxLocksetPause(b): the harness's own inspection of the object is not subject to the discipline
	vxAPI["vxLocksetPause"] = func(e *Exec, fn *ssa.Function, a []Value) Value {
		if e.lockWatch != nil {
			e.lockWatch.paused = a[0].(Bool).C
		}
		return nil
	}
	// vxLocksetBad() int: number of accesses that violated the discipline so far; vxLocksetHeld(mu) bool
	vxAPI["vxLocksetBad"] = func(e *Exec, fn *ssa.Function, a []Value) Value {
		if e.lockWatch == nil {
			return mkInt(64, 0)
		}
		for _, b := range e.lockWatch.bad {
			e.tags = append(e.tags, "lockset: "+b)
		}
		return mkInt(64, uint64(len(e.lockWatch.bad)))
	}
	vxAPI["vxLocksetAccesses"] = func(e *Exec, fn *ssa.Function, a []Value) Value {
		if e.lockWatch == nil {
			return mkInt(64, 0)
		}
		return mkInt(64, uint64(e.lockWatch.accesses))
	}
	// vxInPool(b): the bytes of b live in a buffer that is currently inside a sync.Pool (was Put and not handed out again)
	vxAPI["vxInPool"] = func(e *Exec, fn *ssa.Function, a []Value) Value {
		sl, ok := a[0].(Slice)
		if !ok || sl.A.Obj == nil {
			return Bool{C: false}
		}
		for _, items := range e.pools {
			for _, it := range items {
				iv, ok := it.(Iface)
				if !ok {
					continue
				}
				if p, ok := iv.V.(Ptr); ok && p.Obj != nil {
					if p.Obj == sl.A.Obj {
						return Bool{C: true}
					}
					if inner, ok := e.load(p).(Slice); ok && inner.A.Obj == sl.A.Obj {
						return Bool{C: true}
					}
				}
			}
		}
		return Bool{C: false}
	}
	// vxPoolClear(): forget what the pools hold (engine only; used after computing a reference value so that it does not add pool choices)
	vxAPI["vxPoolClear"] = func(e *Exec, fn *ssa.Function, a []Value) Value {
		e.pools = map[lockKey][]Value{}
		return nil
	}
	vxAPI["vxPoolDoublePuts"] = func(e *Exec, fn *ssa.Function, a []Value) Value {
		return mkInt(64, uint64(e.poolDoublePut))
	}
	vxAPI["vxLockHeld"] = func(e *Exec, fn *ssa.Function, a []Value) Value {
		return Bool{C: e.locks[e.lockKeyOf(a[0].(Iface).V)] != 0}
	}
}
