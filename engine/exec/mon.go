package exec

// Monitors: write-set / freshness tracking and lock-set tracking (DESIGN 2.4).

type monitor struct {
	epoch   int
	allowed map[*Obj]bool
	allowedMaps map[*MapObj]bool
	writes  []string // offending writes to pre-existing objects
	watch   map[*Obj]lockKey
	lockBad []string
}

func (e *Exec) monRead(p Ptr) {
	if e.lockWatch != nil {
		e.locksetAccess(p, false)
	}
}

func (e *Exec) monWrite(p Ptr) {
	if p.Obj.Frozen {
		e.unsupported("write to shared (once-initialised) stdlib state: " + p.Obj.Site)
	}
	if e.mon != nil {
		e.mon.noteWrite(e, p.Obj, pathKey(p.Path))
	}
	if e.lockWatch != nil {
		e.locksetAccess(p, true)
	}
}

func (e *Exec) monWriteMap(m *MapObj) {
	if m.Frozen {
		e.unsupported("write to shared (once-initialised) stdlib map")
	}
	if e.mon != nil && m.Epoch < e.mon.epoch {
		if !e.mon.allowedMaps[m] {
			e.mon.writes = append(e.mon.writes, "map#"+itoa(m.ID))
		}
	}
}

func (m *monitor) noteWrite(e *Exec, o *Obj, path string) {
	if o.Epoch >= m.epoch || o.Pool && o.PoolEpoch >= m.epoch {
		return
	}
	// regrown copies of objects owned in this frame
	for f := o.From; f != nil; f = f.From {
		if f.Epoch >= m.epoch {
			return
		}
	}
	if m.allowed[o] {
		return
	}
	m.writes = append(m.writes, o.Site+path)
}

func itoa(i int) string {
	if i == 0 {
		return "0"
	}
	neg := i < 0
	if neg {
		i = -i
	}
	var b []byte
	for i > 0 {
		b = append([]byte{byte('0' + i%10)}, b...)
		i /= 10
	}
	if neg {
		b = append([]byte{'-'}, b...)
	}
	return string(b)
}

func (e *Exec) locksetAccess(p Ptr, write bool) {
	lw := e.lockWatch
	mu, ok := lw.objs[p.Obj]
	if !ok {
		return
	}
	// accesses to the mutex itself and to exempt fields are ignored
	pk := pathKey(p.Path)
	for _, ex := range lw.exempt {
		if len(pk) >= len(ex) && pk[:len(ex)] == ex {
			return
		}
	}
	st := e.locks[mu]
	if write && st != -1 || !write && st == 0 {
		kind := "read"
		if write {
			kind = "write"
		}
		lw.bad = append(lw.bad, kind+" of "+p.Obj.Site+pk+" without lock")
	}
	lw.accesses++
}

type lockWatch struct {
	objs     map[*Obj]lockKey
	exempt   []string
	bad      []string
	accesses int
}
