package exec

import (
	"fmt"
	"go/types"

	"golang.org/x/tools/go/ssa"
)

// File-system stub for C18 (DESIGN.md B.10): a handful of inodes with symbolic content and a
// name -> inode map in which two names may resolve to the same inode (other spelling, symlink, hard
// link). os.Open / os.Create (O_TRUNC on the RESOLVED inode) / io.Copy (reads the source inode's
// CURRENT content) / Close / os.Rename / os.Remove / Stat / os.SameFile operate on it; with faults
// enabled each call may also fail.

type fsInode struct {
	id      int
	isDir   bool
	content []Value
}

type fsState struct {
	otherFS  map[string]bool
	links    map[string]string // symbolic links: name -> target name (followed by open/create/stat, not by lstat/remove/rename)
	linkIno  map[string]*fsInode
	inodes   []*fsInode
	names    map[string]*fsInode
	noParent map[string]bool
	faults   bool
	handles  map[*Obj]*fsHandle
	infos    map[*Obj]*fsInode
	log      []string
}

type fsHandle struct {
	ino    *fsInode
	write  bool
	closed bool
	off    int  // write offset
	app    bool // O_APPEND
}

func (e *Exec) fs() *fsState {
	f, ok := e.extra["fs"].(*fsState)
	if !ok {
		f = &fsState{names: map[string]*fsInode{}, noParent: map[string]bool{}, handles: map[*Obj]*fsHandle{}, infos: map[*Obj]*fsInode{}}
		e.extra["fs"] = f
	}
	return f
}

// resolve follows symbolic links (at most a few levels)
func (f *fsState) resolve(name string) string {
	for i := 0; i < 4; i++ {
		t, ok := f.links[name]
		if !ok {
			return name
		}
		name = t
	}
	return name
}

func (e *Exec) fsFault(op string) bool {
	f := e.fs()
	if !f.faults {
		return false
	}
	switch op {
	case "rename", "copy", "remove":
	default:
		// open / create / stat fail only for structural reasons (missing name, directory, missing parent),
		// which is the fault list of the property
		return false
	}
	k := e.pick(2)
	e.inputs = append(e.inputs, InputVal{Call: "stub:fsfault:" + op, Vals: []uint64{uint64(k)}})
	return k == 1
}

// writeAt writes data at the handle's offset (the end of the file with O_APPEND): bytes of a longer existing
// content behind the written range stay (a destination opened without O_TRUNC keeps its old tail)
func (h *fsHandle) writeAt(data []Value) {
	old := h.ino.content
	if h.app {
		h.off = len(old)
	}
	out := append([]Value{}, old[:min(h.off, len(old))]...)
	for len(out) < h.off {
		out = append(out, mkInt(8, 0))
	}
	out = append(out, data...)
	if h.off+len(data) < len(old) {
		out = append(out, old[h.off+len(data):]...)
	}
	h.ino.content = out
	h.off += len(data)
}

func (e *Exec) pathErr(op, path, msg string) Value {
	return e.errorValue(op + " " + path + ": " + msg + " (vx stub file system)")
}

func (e *Exec) newFile(fn *ssa.Function, resultIdx int, h *fsHandle) Value {
	ft := fn.Signature.Results().At(resultIdx).Type() // *os.File
	o := e.newObj(e.zero(deref(ft)), "os.File")
	e.fs().handles[o] = h
	return Ptr{Obj: o}
}

func (e *Exec) handleOf(v Value) *fsHandle {
	switch x := v.(type) {
	case Ptr:
		if h, ok := e.fs().handles[x.Obj]; ok {
			return h
		}
	case Iface:
		return e.handleOf(x.V)
	}
	e.unsupported("file-system stub: not a stub file handle")
	return nil
}

func init() {
	// harness API
	vxAPI["vxFSFile"] = func(e *Exec, fn *ssa.Function, a []Value) Value {
		name := e.concStr(a[0], "vxFSFile")
		f := e.fs()
		ino := &fsInode{id: len(f.inodes), content: append([]Value{}, e.sliceElems(a[1].(Slice))...)}
		f.inodes = append(f.inodes, ino)
		f.names[name] = ino
		return a[0]
	}
	vxAPI["vxFSDir"] = func(e *Exec, fn *ssa.Function, a []Value) Value {
		name := e.concStr(a[0], "vxFSDir")
		f := e.fs()
		ino := &fsInode{id: len(f.inodes), isDir: true}
		f.inodes = append(f.inodes, ino)
		f.names[name] = ino
		return a[0]
	}
	// vxFSAlias(newName, oldName string, kind int) string: newName resolves to the same file as oldName
	// (kind 0: other spelling of the same path, 1: symbolic link, 2: hard link, 3: symbolic link that lives on the other file system)
	vxAPI["vxFSAlias"] = func(e *Exec, fn *ssa.Function, a []Value) Value {
		f := e.fs()
		nn, on, kind := e.concStr(a[0], "vxFSAlias"), e.concStr(a[1], "vxFSAlias"), e.concInt(a[2])
		if kind == 1 || kind == 3 {
			if f.links == nil {
				f.links = map[string]string{}
				f.linkIno = map[string]*fsInode{}
			}
			f.links[nn] = on
			ino := &fsInode{id: len(f.inodes)}
			f.inodes = append(f.inodes, ino)
			f.linkIno[nn] = ino
			if kind == 3 {
				if f.otherFS == nil {
					f.otherFS = map[string]bool{}
				}
				f.otherFS[nn] = true
			}
			return a[0]
		}
		f.names[nn] = f.names[on]
		return a[0]
	}
	vxAPI["vxFSMissing"] = func(e *Exec, fn *ssa.Function, a []Value) Value { return a[0] }
	vxAPI["vxFSNoParent"] = func(e *Exec, fn *ssa.Function, a []Value) Value {
		e.fs().noParent[e.concStr(a[0], "vxFSNoParent")] = true
		return a[0]
	}
	vxAPI["vxFSOtherFS"] = func(e *Exec, fn *ssa.Function, a []Value) Value {
		f := e.fs()
		if f.otherFS == nil {
			f.otherFS = map[string]bool{}
		}
		f.otherFS[e.concStr(a[0], "vxFSOtherFS")] = true
		return a[0]
	}
	vxAPI["vxFSFaults"] = func(e *Exec, fn *ssa.Function, a []Value) Value {
		e.fs().faults = a[0].(Bool).C
		return nil
	}
	// vxFSRead(name) ([]byte, bool): content and existence of a regular file
	vxAPI["vxFSRead"] = func(e *Exec, fn *ssa.Function, a []Value) Value {
		ino, ok := e.fs().names[e.fs().resolve(e.concStr(a[0], "vxFSRead"))]
		if !ok || ino.isDir {
			return Tuple{Slice{}, Bool{C: false}}
		}
		el := append([]Value{}, ino.content...)
		o := e.newObj(&Array{E: el}, "vxFSRead")
		o.ownsArr = true
		return Tuple{Slice{A: ArrRef{Obj: o}, Len: len(el), Cap: len(el)}, Bool{C: true}}
	}
	vxAPI["vxFSSame"] = func(e *Exec, fn *ssa.Function, a []Value) Value {
		f := e.fs()
		x, ok1 := f.names[f.resolve(e.concStr(a[0], "vxFSSame"))]
		y, ok2 := f.names[f.resolve(e.concStr(a[1], "vxFSSame"))]
		return Bool{C: ok1 && ok2 && x == y}
	}

	reg("os.Open", func(e *Exec, fn *ssa.Function, a []Value) Value {
		name := e.concStr(a[0], "os.Open")
		f := e.fs()
		ino, ok := f.names[f.resolve(name)]
		if !ok {
			return Tuple{Ptr{}, e.pathErr("open", name, "no such file or directory")}
		}
		if e.fsFault("open") {
			return Tuple{Ptr{}, e.pathErr("open", name, "injected fault")}
		}
		return Tuple{e.newFile(fn, 0, &fsHandle{ino: ino}), Iface{}}
	})
	reg("os.Create", func(e *Exec, fn *ssa.Function, a []Value) Value {
		name := e.concStr(a[0], "os.Create")
		f := e.fs()
		if f.noParent[name] {
			return Tuple{Ptr{}, e.pathErr("open", name, "no such file or directory")}
		}
		rname := f.resolve(name)
		ino, ok := f.names[rname]
		if ok && ino.isDir {
			return Tuple{Ptr{}, e.pathErr("open", name, "is a directory")}
		}
		if e.fsFault("create") {
			return Tuple{Ptr{}, e.pathErr("open", name, "injected fault")}
		}
		if !ok {
			ino = &fsInode{id: len(f.inodes)}
			f.inodes = append(f.inodes, ino)
			f.names[rname] = ino
		}
		ino.content = nil // O_TRUNC on whatever the name resolves to
		return Tuple{e.newFile(fn, 0, &fsHandle{ino: ino, write: true}), Iface{}}
	})
	// os.OpenFile(name, flag, perm) with concrete flags (linux values)
	reg("os.OpenFile", func(e *Exec, fn *ssa.Function, a []Value) Value {
		const oWRONLY, oRDWR, oCREATE, oEXCL, oTRUNC, oAPPEND = 0x1, 0x2, 0x40, 0x80, 0x200, 0x400
		name := e.concStr(a[0], "os.OpenFile")
		flag := e.concInt(a[1])
		f := e.fs()
		rname := f.resolve(name)
		ino, ok := f.names[rname]
		if !ok {
			if flag&oCREATE == 0 || f.noParent[name] {
				return Tuple{Ptr{}, e.pathErr("open", name, "no such file or directory")}
			}
		} else if flag&oCREATE != 0 && flag&oEXCL != 0 {
			return Tuple{Ptr{}, e.pathErr("open", name, "file exists")}
		}
		write := flag&(oWRONLY|oRDWR) != 0
		if ok && ino.isDir && write {
			return Tuple{Ptr{}, e.pathErr("open", name, "is a directory")}
		}
		if !ok {
			ino = &fsInode{id: len(f.inodes)}
			f.inodes = append(f.inodes, ino)
			f.names[rname] = ino
		}
		if flag&oTRUNC != 0 && write {
			ino.content = nil
		}
		return Tuple{e.newFile(fn, 0, &fsHandle{ino: ino, write: write, app: flag&oAPPEND != 0}), Iface{}}
	})
	reg("(*os.File).Truncate", func(e *Exec, fn *ssa.Function, a []Value) Value {
		h := e.handleOf(a[0])
		n := e.concInt(a[1])
		if h.closed || !h.write || n < 0 {
			return e.errorValue("truncate: invalid argument")
		}
		for len(h.ino.content) < n {
			h.ino.content = append(h.ino.content, mkInt(8, 0))
		}
		h.ino.content = h.ino.content[:n]
		return Iface{}
	})
	reg("(*os.File).Close", func(e *Exec, fn *ssa.Function, a []Value) Value {
		p := a[0].(Ptr)
		if p.Obj == nil {
			return e.errorValue("invalid argument")
		}
		h := e.handleOf(p)
		if h.closed {
			return e.errorValue("file already closed")
		}
		h.closed = true
		return Iface{}
	})
	reg("io.Copy", func(e *Exec, fn *ssa.Function, a []Value) Value {
		dst, src := e.handleOf(a[0]), e.handleOf(a[1])
		if dst.closed || src.closed || !dst.write {
			return Tuple{mkInt(64, 0), e.errorValue("copy: bad file descriptor")}
		}
		data := append([]Value{}, src.ino.content...) // what the source inode holds NOW
		if src.ino.isDir {
			return Tuple{mkInt(64, 0), e.errorValue("read: is a directory")}
		}
		if e.fsFault("copy") {
			k := 0
			if len(data) > 0 {
				k = e.pick(len(data))
			}
			dst.writeAt(data[:k])
			return Tuple{mkInt(64, uint64(k)), e.errorValue("copy: injected fault")}
		}
		dst.writeAt(data)
		return Tuple{mkInt(64, uint64(len(data))), Iface{}}
	})
	reg("os.Rename", func(e *Exec, fn *ssa.Function, a []Value) Value {
		from, to := e.concStr(a[0], "os.Rename"), e.concStr(a[1], "os.Rename")
		f := e.fs()
		src, ok := f.names[from]
		if !ok {
			return e.pathErr("rename", from, "no such file or directory")
		}
		if _, isLink := f.links[to]; isLink {
			// renaming onto a symbolic link replaces the link itself (it is a different file than the source)
			if f.otherFS[to] != f.otherFS[from] {
				return e.pathErr("rename", from, "invalid cross-device link")
			}
			if e.fsFault("rename") {
				return e.pathErr("rename", from, "invalid cross-device link")
			}
			delete(f.links, to)
			f.names[to] = src
			delete(f.names, from)
			return Iface{}
		}
		if f.noParent[to] {
			return e.pathErr("rename", to, "no such file or directory")
		}
		if d, ok := f.names[to]; ok && d.isDir && !src.isDir {
			return e.pathErr("rename", to, "file exists")
		}
		if f.otherFS[to] != f.otherFS[from] {
			return e.pathErr("rename", from, "invalid cross-device link")
		}
		if e.fsFault("rename") { // EXDEV or anything else
			return e.pathErr("rename", from, "invalid cross-device link")
		}
		if d, ok := f.names[to]; ok && d == src {
			return Iface{} // same file: POSIX rename does nothing and succeeds
		}
		f.names[to] = src
		delete(f.names, from)
		return Iface{}
	})
	reg("os.Remove", func(e *Exec, fn *ssa.Function, a []Value) Value {
		name := e.concStr(a[0], "os.Remove")
		f := e.fs()
		if _, isLink := f.links[name]; isLink {
			if e.fsFault("remove") {
				return e.pathErr("remove", name, "injected fault")
			}
			delete(f.links, name)
			return Iface{}
		}
		if _, ok := f.names[name]; !ok {
			return e.pathErr("remove", name, "no such file or directory")
		}
		if e.fsFault("remove") {
			return e.pathErr("remove", name, "injected fault")
		}
		delete(f.names, name)
		return Iface{}
	})
	mkInfo := func(e *Exec, fn *ssa.Function, ino *fsInode) Value {
		osp := e.P.Prog.ImportedPackage("os")
		st := osp.Type("fileStat").Type()
		o := e.newObj(e.zero(st), "os.fileStat")
		e.fs().infos[o] = ino
		return Iface{T: types.NewPointer(st), V: Ptr{Obj: o}}
	}
	reg("(*os.File).Stat", func(e *Exec, fn *ssa.Function, a []Value) Value {
		h := e.handleOf(a[0])
		if e.fsFault("fstat") {
			return Tuple{Iface{}, e.errorValue("stat: injected fault")}
		}
		return Tuple{mkInfo(e, fn, h.ino), Iface{}}
	})
	reg("os.Lstat", func(e *Exec, fn *ssa.Function, a []Value) Value {
		name := e.concStr(a[0], "os.Lstat")
		f := e.fs()
		if _, isLink := f.links[name]; isLink {
			return Tuple{mkInfo(e, fn, f.linkIno[name]), Iface{}} // the link itself: a different file than its target
		}
		ino, ok := f.names[name]
		if !ok {
			return Tuple{Iface{}, e.pathErr("lstat", name, "no such file or directory")}
		}
		return Tuple{mkInfo(e, fn, ino), Iface{}}
	})
	statFn := func(e *Exec, fn *ssa.Function, a []Value) Value {
		name := e.concStr(a[0], "os.Stat")
		ino, ok := e.fs().names[e.fs().resolve(name)]
		if !ok {
			return Tuple{Iface{}, e.pathErr("stat", name, "no such file or directory")}
		}
		if e.fsFault("stat") {
			return Tuple{Iface{}, e.pathErr("stat", name, "injected fault")}
		}
		return Tuple{mkInfo(e, fn, ino), Iface{}}
	}
	reg("os.Stat", statFn)
	reg("os.SameFile", func(e *Exec, fn *ssa.Function, a []Value) Value {
		get := func(v Value) *fsInode {
			if iv, ok := v.(Iface); ok {
				if p, ok := iv.V.(Ptr); ok && p.Obj != nil {
					return e.fs().infos[p.Obj]
				}
			}
			return nil
		}
		x, y := get(a[0]), get(a[1])
		return Bool{C: x != nil && x == y}
	})
}

var _ = fmt.Sprint
