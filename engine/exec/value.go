package exec

import (
	"fmt"
	"go/types"
	"strings"

	"golang.org/x/tools/go/ssa"
	"vx/term"
)

// Value is one of the types below. Aggregates (*Struct, *Array) are immutable once
// stored anywhere except the top-level value of an Obj, which the Obj owns and mutates in place.
type Value interface{}

type Int struct {
	W int        // 8,16,32,64
	C uint64     // concrete value (masked) when T == nil
	T *term.Term // symbolic value otherwise
}

type Bool struct {
	C bool
	T *term.Term
}

type Float struct {
	C      float64
	Opaque bool
}

// ArrRef designates an array-valued location: the whole Obj value (Path empty) or a sub-location.
type ArrRef struct {
	Obj  *Obj
	Path []Step
}

type Str struct {
	A   ArrRef
	Off int
	Len int
}

type Slice struct {
	A   ArrRef // A.Obj == nil => nil slice
	Off int
	Len int
	Cap int
}

type Step struct {
	Index bool
	N     int        // field number or concrete index
	T     *term.Term // symbolic index (64-bit) when non-nil
}

type Ptr struct {
	Obj  *Obj // nil => nil pointer
	Path []Step
}

type Struct struct{ F []Value }
type Array struct{ E []Value }

type Iface struct {
	T types.Type // nil => nil interface
	V Value
}

type Closure struct {
	Fn   *ssa.Function // nil => nil func
	Bind []Value
	Nat  *Native // native function value (engine-provided), when Fn == nil
}

type Native struct {
	Name string
	F    func(e *Exec, args []Value) Value
}

type BuiltinV struct{ B *ssa.Builtin }

type MapV struct{ M *MapObj }
type ChanV struct{ C *ChanObj }
type Tuple []Value
type Opaque struct{ Why string }

type MapObj struct {
	ID   int
	Frozen bool
	Epoch int
	Ents []MapEnt
	TM   *termMap // non-nil: term-map representation (integer keys, scalar values)
}
type MapEnt struct{ K, V Value }

type ChanObj struct {
	ID     int
	Timer  bool
	Epoch  int
	ElemKind string
	Name   string
	Cap    int
	Buf    []Value
	Closed bool
}

type Obj struct {
	ID    int
	V     Value
	Epoch int    // monitor frame in which it was allocated
	Site  string // allocation site
	Pool  bool   // handed out by a sync.Pool in the current monitor frame
	Glob  *ssa.Global
	Frozen bool
	PoolEpoch int
	From *Obj // object this one was regrown from (append)
	ownsArr bool // top-level *Array is exclusively owned (may be mutated in place)
}

// ---------------------------------------------------------------- helpers

func mkInt(w int, c uint64) Int { return Int{W: w, C: c & term.Mask(w)} }

func (e *Exec) intTerm(v Int) *term.Term {
	if v.T != nil {
		return v.T
	}
	return e.TB.Const(v.W, v.C)
}

func (e *Exec) fromTerm(t *term.Term) Int {
	if t.Op == term.OConst {
		return Int{W: t.W, C: t.Val}
	}
	return Int{W: t.W, T: t}
}

func (e *Exec) boolTerm(v Bool) *term.Term {
	if v.T != nil {
		return v.T
	}
	return e.TB.Bool(v.C)
}

func (e *Exec) fromBoolTerm(t *term.Term) Bool {
	if t.Op == term.OConst {
		return Bool{C: t.Val == 1}
	}
	return Bool{T: t}
}

func intWidth(t types.Type) (w int, signed bool, ok bool) {
	b, isb := t.Underlying().(*types.Basic)
	if !isb {
		return 0, false, false
	}
	switch b.Kind() {
	case types.Int8:
		return 8, true, true
	case types.Int16:
		return 16, true, true
	case types.Int32:
		return 32, true, true
	case types.Int64, types.Int, types.UntypedInt, types.UntypedRune:
		if b.Kind() == types.UntypedRune {
			return 32, true, true
		}
		return 64, true, true
	case types.Uint8:
		return 8, false, true
	case types.Uint16:
		return 16, false, true
	case types.Uint32:
		return 32, false, true
	case types.Uint64, types.Uint, types.Uintptr:
		return 64, false, true
	}
	return 0, false, false
}

func isFloat(t types.Type) bool {
	b, ok := t.Underlying().(*types.Basic)
	return ok && b.Info()&types.IsFloat != 0
}
func isString(t types.Type) bool {
	b, ok := t.Underlying().(*types.Basic)
	return ok && b.Info()&types.IsString != 0
}
func isBool(t types.Type) bool {
	b, ok := t.Underlying().(*types.Basic)
	return ok && b.Info()&types.IsBoolean != 0
}

// zero value of a type
func (e *Exec) zero(t types.Type) Value {
	switch u := t.Underlying().(type) {
	case *types.Basic:
		if w, _, ok := intWidth(u); ok {
			return Int{W: w}
		}
		switch {
		case u.Info()&types.IsBoolean != 0:
			return Bool{}
		case u.Info()&types.IsString != 0:
			return Str{}
		case u.Info()&types.IsFloat != 0:
			return Float{}
		case u.Kind() == types.UnsafePointer:
			return Ptr{}
		case u.Kind() == types.UntypedNil:
			return Ptr{}
		}
		return Opaque{"zero of " + t.String()}
	case *types.Pointer:
		return Ptr{}
	case *types.Slice:
		return Slice{}
	case *types.Map:
		return MapV{}
	case *types.Chan:
		return ChanV{}
	case *types.Signature:
		return Closure{}
	case *types.Interface:
		return Iface{}
	case *types.Struct:
		f := make([]Value, u.NumFields())
		for i := range f {
			f[i] = e.zero(u.Field(i).Type())
		}
		return &Struct{F: f}
	case *types.Array:
		n := int(u.Len())
		el := make([]Value, n)
		if n > 0 {
			z := e.zero(u.Elem())
			for i := range el {
				el[i] = z // immutable aggregates can be shared
			}
		}
		return &Array{E: el}
	case *types.Tuple:
		tp := make(Tuple, u.Len())
		for i := range tp {
			tp[i] = e.zero(u.At(i).Type())
		}
		return tp
	}
	return Opaque{"zero of " + t.String()}
}

func (e *Exec) newObj(v Value, site string) *Obj {
	e.objSeq++
	o := &Obj{ID: e.objSeq, V: v, Epoch: e.epoch, Site: site}
	if e.initing > 0 {
		e.initAllocs = append(e.initAllocs, o)
	}
	return o
}

// newArrObj creates an object holding a fresh mutable array of n copies of z.
func (e *Exec) newArrObj(n int, z Value, site string) *Obj {
	el := make([]Value, n)
	for i := range el {
		el[i] = z
	}
	o := e.newObj(&Array{E: el}, site)
	o.ownsArr = true
	return o
}

func (e *Exec) strFromGo(s string) Str {
	if len(s) == 0 {
		return Str{}
	}
	if o, ok := e.strCache[s]; ok {
		return Str{A: ArrRef{Obj: o}, Len: len(s)}
	}
	el := make([]Value, len(s))
	for i := 0; i < len(s); i++ {
		el[i] = Int{W: 8, C: uint64(s[i])}
	}
	o := &Obj{ID: 0, V: &Array{E: el}, Site: "strconst", Epoch: -1}
	e.strCache[s] = o
	return Str{A: ArrRef{Obj: o}, Len: len(s)}
}

// strBytes returns the byte Values of a string.
func (e *Exec) strBytes(s Str) []Value {
	if s.Len == 0 {
		return nil
	}
	arr := e.loadArr(s.A)
	return arr.E[s.Off : s.Off+s.Len]
}

func (e *Exec) sliceElems(s Slice) []Value {
	if s.Len == 0 || s.A.Obj == nil {
		return nil
	}
	arr := e.loadArr(s.A)
	return arr.E[s.Off : s.Off+s.Len]
}

// concrete Go string if all bytes concrete
func (e *Exec) goString(s Str) (string, bool) {
	bs := e.strBytes(s)
	out := make([]byte, len(bs))
	for i, b := range bs {
		iv, ok := b.(Int)
		if !ok || iv.T != nil {
			return "", false
		}
		out[i] = byte(iv.C)
	}
	return string(out), true
}

func (e *Exec) strFromBytes(bs []Value) Str {
	if len(bs) == 0 {
		return Str{}
	}
	el := make([]Value, len(bs))
	copy(el, bs)
	o := e.newObj(&Array{E: el}, "str")
	return Str{A: ArrRef{Obj: o}, Len: len(bs)}
}

// ---------------------------------------------------------------- debug printing

func (e *Exec) show(v Value) string {
	switch x := v.(type) {
	case nil:
		return "<nil>"
	case Int:
		if x.T != nil {
			return fmt.Sprintf("sym%d", x.W)
		}
		return fmt.Sprintf("%d", x.C)
	case Bool:
		if x.T != nil {
			return "symbool"
		}
		return fmt.Sprint(x.C)
	case Str:
		if s, ok := e.goString(x); ok {
			return fmt.Sprintf("%q", s)
		}
		return fmt.Sprintf("str[%d]", x.Len)
	case Slice:
		return fmt.Sprintf("slice[%d:%d]", x.Len, x.Cap)
	case Ptr:
		if x.Obj == nil {
			return "nilptr"
		}
		return fmt.Sprintf("&o%d%v", x.Obj.ID, x.Path)
	case *Struct:
		var sb strings.Builder
		sb.WriteString("{")
		for i, f := range x.F {
			if i > 0 {
				sb.WriteString(" ")
			}
			sb.WriteString(e.show(f))
		}
		sb.WriteString("}")
		return sb.String()
	case *Array:
		return fmt.Sprintf("array[%d]", len(x.E))
	case Iface:
		if x.T == nil {
			return "nil-iface"
		}
		return "iface(" + x.T.String() + ":" + e.show(x.V) + ")"
	case Closure:
		if x.Fn != nil {
			return "func " + x.Fn.String()
		}
		return "nilfunc"
	case Tuple:
		var sb strings.Builder
		sb.WriteString("(")
		for i, f := range x {
			if i > 0 {
				sb.WriteString(", ")
			}
			sb.WriteString(e.show(f))
		}
		sb.WriteString(")")
		return sb.String()
	}
	return fmt.Sprintf("%T", v)
}
