// Package exec: forking symbolic executor over go/ssa ("Engine 1").
// Exploration is depth-first by re-execution: a decision stack records the choice made at
// every symbolic branch / pick / concretisation; each run replays the stack and extends it.
package exec

import (
	"runtime"
	"fmt"
	"os"
	"go/types"
	"sort"
	"strings"
	"sync"
	"time"

	"golang.org/x/tools/go/ssa"
	"vx/smt"
	"vx/term"
)

type Program struct {
	Prog  *ssa.Program
	Pkgs  []*ssa.Package
	Sizes types.Sizes
	Files map[string]string // source file -> sha256 (for evidence)
}

type Config struct {
	MaxSteps   int // instructions per path
	MaxIter    int // visits of one block per frame (unwinding bound)
	MaxDepth   int // call depth
	MaxPaths   int // per harness (all workers)
	Workers    int
	SplitDepth int
	Solver     string
	TimeoutMs  int
	Params     map[string]int
	Deadline   time.Time
	Trace      bool
	FuncStubs  map[string]string // function of the code under test -> harness function replacing it
	PanicOK    bool // an uncaught panic is not a violation (harness handles it)
}

type decision struct {
	kind     byte // 'b','p','c'
	choice   int
	alts     []int
	n        int
	cur      uint64
	tried    []uint64
	needNext bool
	pn       int
	dead     bool
	models   [2]map[string]uint64
	model    map[string]uint64
}

type pathEnd struct {
	kind string
	msg  string
}

type goPanic struct {
	val Value
	msg string // for runtime errors
}

type InputVal struct {
	Call  string   `json:"call"`
	Len   int      `json:"len,omitempty"`
	Vals  []uint64 `json:"vals"`
	terms []*term.Term
}

type Violation struct {
	Harness string     `json:"harness"`
	Kind    string     `json:"kind"` // assert | panic
	Msg     string     `json:"msg"`
	Inputs  []InputVal `json:"inputs"`
	Path    string     `json:"path"`
	Tags    []string   `json:"tags,omitempty"`
}

type Stats struct {
	Paths        int
	PathsDone    int
	PathsAssume  int
	PathsPanic   int
	Forks        int
	Steps        int64
	Asserts      int // assertion queries discharged (proved or refuted)
	AssertProved int
	Unsupported  map[string]int
	Limits       map[string]int
	Unknowns     int
	Reach        map[string]int
	Ends         map[string]int
	Violations   []Violation
	Samples      []Violation // witnesses (inputs of some completed paths)
	Funcs        map[string]int // functions executed -> instruction count
	Stubs        map[string]int // intrinsics / stubs used
	Queries      int
	SolverTime   time.Duration
	SolverErrors int
	Wall         time.Duration
	MaxPC        int
}

func newStats() *Stats {
	return &Stats{Unsupported: map[string]int{}, Limits: map[string]int{}, Reach: map[string]int{}, Ends: map[string]int{}, Funcs: map[string]int{}, Stubs: map[string]int{}}
}

func (s *Stats) merge(o *Stats) {
	s.Paths += o.Paths
	s.PathsDone += o.PathsDone
	s.PathsAssume += o.PathsAssume
	s.PathsPanic += o.PathsPanic
	s.Forks += o.Forks
	s.Steps += o.Steps
	s.Asserts += o.Asserts
	s.AssertProved += o.AssertProved
	s.Unknowns += o.Unknowns
	s.Queries += o.Queries
	s.SolverTime += o.SolverTime
	s.SolverErrors += o.SolverErrors
	if o.MaxPC > s.MaxPC {
		s.MaxPC = o.MaxPC
	}
	for k, v := range o.Unsupported {
		s.Unsupported[k] += v
	}
	for k, v := range o.Limits {
		s.Limits[k] += v
	}
	for k, v := range o.Reach {
		s.Reach[k] += v
	}
	for k, v := range o.Ends {
		s.Ends[k] += v
	}
	for k, v := range o.Funcs {
		if v > s.Funcs[k] {
			s.Funcs[k] = v
		}
	}
	for k, v := range o.Stubs {
		s.Stubs[k] += v
	}
	s.Violations = append(s.Violations, o.Violations...)
	s.Samples = append(s.Samples, o.Samples...)
}

// Inconclusive reports whether anything limits the claim.
func (s *Stats) Inconclusive() bool {
	return len(s.Unsupported) > 0 || len(s.Limits) > 0 || s.Unknowns > 0 || s.SolverErrors > 0
}

type job struct {
	stack []decision
	base  int // entries [0,base) are forced; later entries are owned by the job
}

// MaxCex: exploration of a harness stops after this many counterexamples (check.json: max_cex). A small harness whose
// counterexamples are mostly not replayable natively (injected faults) sets it higher so that the replayable ones are
// not crowded out by exploration order.
var MaxCex = 12

type shared struct {
	mu      sync.Mutex
	cond    *sync.Cond
	queue   []job
	idle    int
	nw      int
	done    bool
	paths   int
	stop    bool
	nviol   int
	donated int
}

type Exec struct {
	P   *Program
	Cfg *Config
	TB  *term.Table
	S   *smt.Solver
	St  *Stats
	sh  *shared
	wid int

	harness string

	// per path
	stack    []decision
	pos      int
	pc       []*term.Term
	pcLit    map[int]bool
	model    map[string]uint64
	vars     []*term.Term
	inputs   []InputVal
	nvar     int
	objSeq   int
	epoch    int
	steps    int
	depth    int
	globals  map[*ssa.Global]*Obj
	inited   map[*ssa.Package]bool
	initing  int
	strCache map[string]*Obj
	tags     []string
	claimedK bool
	asserted []*term.Term // literals currently asserted in the solver (mirrors a prefix of pc)
	base     int

	// side tables (per path)
	locks  map[lockKey]int // 0 free, -1 write-held, n>0 readers
	pools  map[lockKey][]Value
	poolDoublePut int // sync.Pool monitor: Put of an object that is already in the pool
	framePick int // runtime frame stub: which of frameFiles this path's (single) program counter resolves to; -1 = not chosen yet
	wgs    map[lockKey]int
	mon    *monitor
	ghost  map[string]Value
	fnInfo map[*ssa.Function]*fnInfo
	consts map[*ssa.Const]Value

	stdGlobals map[*ssa.Global]*Obj
	initPkg []*ssa.Package
	frozenFrom [][2]int
	curFrame *frame
	locSuffix string
	procs []procSpec
	pr *procRun
	procBase *frame
	collectGo bool
	tokens map[*Obj]int
	ntokens int
	monoClock int64
	onces map[lockKey]bool
	intrCache map[*ssa.Function]natFn
	fnNames map[*ssa.Function]string
	lockEvents []lockEvent
	atomicDepth int
	initAllocs []*Obj
	initMaps []*MapObj
	lockWatch *lockWatch
	poolMode int // 0: fork over {each pooled object, New}; 1: LIFO reuse; 2: always New
	extra    map[string]interface{}
}

type lockKey struct {
	obj  *Obj
	path string
}

func pathKey(p []Step) string {
	if len(p) == 0 {
		return ""
	}
	var sb strings.Builder
	for _, s := range p {
		if s.Index {
			fmt.Fprintf(&sb, "[%d]", s.N)
		} else {
			fmt.Fprintf(&sb, ".%d", s.N)
		}
	}
	return sb.String()
}

// RunHarness explores all paths of the harness function with Cfg.Workers workers.
func RunHarness(p *Program, cfg *Config, fn *ssa.Function) *Stats {
	start := time.Now()
	sh := &shared{nw: maxInt(cfg.Workers, 1)}
	sh.cond = sync.NewCond(&sh.mu)
	sh.queue = []job{{}}
	total := newStats()
	var wg sync.WaitGroup
	var mu sync.Mutex
	nw := cfg.Workers
	if nw < 1 {
		nw = 1
	}
	for w := 0; w < nw; w++ {
		wg.Add(1)
		go func(w int) {
			defer wg.Done()
			e := &Exec{P: p, Cfg: cfg, TB: term.NewTable(), St: newStats(), sh: sh, wid: w, harness: fn.Name(),
				intrCache: map[*ssa.Function]natFn{}, fnNames: map[*ssa.Function]string{}, fnInfo: map[*ssa.Function]*fnInfo{}, consts: map[*ssa.Const]Value{}, strCache: map[string]*Obj{}}
			s, err := smt.New(cfg.Solver, cfg.TimeoutMs)
			if err != nil {
				e.St.Unsupported["solver start: "+err.Error()]++
			} else {
				e.S = s
				if lp := os.Getenv("VX_SMTLOG"); lp != "" && w == 0 {
					if f, err := os.Create(lp); err == nil {
						s.Log = f
						defer f.Close()
					}
				}
				e.explore(fn)
				e.St.Queries = s.Queries
				e.St.SolverTime = s.Time
				e.St.SolverErrors = s.Errors
				if s.LastError != "" {
					msg := s.LastError
					if len(msg) > 160 {
						msg = msg[:160]
					}
					e.St.Limits["solver error, e.g.: "+msg]++
				}
				s.Close()
			}
			mu.Lock()
			total.merge(e.St)
			mu.Unlock()
		}(w)
	}
	wg.Wait()
	total.Wall = time.Since(start)
	// dedupe violations by (kind,msg,inputs)
	seen := map[string]bool{}
	var vs []Violation
	for _, v := range total.Violations {
		k := fmt.Sprint(v.Kind, v.Msg, v.Inputs)
		if !seen[k] {
			seen[k] = true
			vs = append(vs, v)
		}
	}
	sort.Slice(vs, func(i, j int) bool { return fmt.Sprint(vs[i].Inputs) < fmt.Sprint(vs[j].Inputs) })
	total.Violations = vs
	return total
}

func (e *Exec) resetPath() {
	e.pos = 0
	e.pc = e.pc[:0]
	e.pcLit = map[int]bool{}
	e.model = map[string]uint64{}
	e.vars = e.vars[:0]
	e.inputs = nil
	e.nvar = 0
	e.objSeq = 0
	e.epoch = 0
	e.steps = 0
	e.depth = 0
	e.globals = map[*ssa.Global]*Obj{}
	e.inited = map[*ssa.Package]bool{}
	e.locks = map[lockKey]int{}
	e.pools = map[lockKey][]Value{}
	e.framePick = -1
	e.poolDoublePut = 0
	e.wgs = map[lockKey]int{}
	e.mon = nil
	e.ghost = map[string]Value{}
	e.tags = nil
	e.claimedK = false
	e.poolMode = 0
	e.locSuffix = ""
	e.tokens = nil
	e.ntokens = 0
	e.procs = nil
	e.monoClock = 0
	e.onces = nil
	e.lockEvents = nil
	e.lockWatch = nil
	e.curFrame = nil
	e.atomicDepth = 0
	e.extra = map[string]interface{}{}
}

func maxInt(a, b int) int {
	if a > b {
		return a
	}
	return b
}

// takeJob blocks until a subtree is available; false when the whole exploration is finished.
func (e *Exec) takeJob() (job, bool) {
	sh := e.sh
	sh.mu.Lock()
	defer sh.mu.Unlock()
	for {
		if sh.stop || sh.done {
			return job{}, false
		}
		if n := len(sh.queue); n > 0 {
			j := sh.queue[n-1]
			sh.queue = sh.queue[:n-1]
			return j, true
		}
		sh.idle++
		if sh.idle == sh.nw {
			sh.done = true
			sh.cond.Broadcast()
			return job{}, false
		}
		sh.cond.Wait()
		sh.idle--
	}
}

// donate hands the shallowest pending alternative of this worker's stack to an idle worker.
func (e *Exec) donate() {
	sh := e.sh
	sh.mu.Lock()
	idle := sh.idle > 0 && len(sh.queue) < sh.idle
	sh.mu.Unlock()
	if !idle {
		return
	}
	for i := e.base; i < len(e.stack); i++ {
		d := &e.stack[i]
		var nd decision
		ok := false
		switch d.kind {
		case 'b':
			if len(d.alts) > 0 {
				nd = decision{kind: 'b', choice: d.alts[0]}
				d.alts = nil
				ok = true
			}
		case 'p':
			if d.choice+1 < d.n {
				nd = decision{kind: 'p', choice: d.choice + 1, n: d.n, pn: d.pn}
				d.n = d.choice + 1
				ok = true
			}
		case 'c':
			if !d.dead && !d.needNext {
				nd = decision{kind: 'c', n: d.n, tried: append(append([]uint64{}, d.tried...), d.cur), needNext: true}
				d.dead = true
				ok = true
			}
		}
		if !ok {
			continue
		}
		st := make([]decision, i+1)
		copy(st, e.stack[:i])
		st[i] = nd
		j := job{stack: st, base: i}
		if nd.kind == 'b' {
			j.base = i + 1
		}
		sh.mu.Lock()
		sh.queue = append(sh.queue, j)
		sh.donated++
		sh.cond.Signal()
		sh.mu.Unlock()
		return
	}
}

func (e *Exec) explore(fn *ssa.Function) {
	for {
		j, ok := e.takeJob()
		if !ok {
			return
		}
		e.stack = j.stack
		e.base = j.base
		e.exploreJob(fn)
	}
}

func (e *Exec) exploreJob(fn *ssa.Function) {
	for {
		e.sh.mu.Lock()
		stop := e.sh.stop
		e.sh.mu.Unlock()
		if stop {
			return
		}
		if !e.Cfg.Deadline.IsZero() && time.Now().After(e.Cfg.Deadline) {
			e.St.Limits["wall-clock deadline"]++
			e.sh.mu.Lock()
			e.sh.stop = true
			e.sh.cond.Broadcast()
			e.sh.mu.Unlock()
			return
		}
		e.resetPath()
		end := e.runOnce(fn)
		e.St.Steps += int64(e.steps)
		if len(e.pc) > e.St.MaxPC {
			e.St.MaxPC = len(e.pc)
		}
		if end.kind != "exhausted" {
			e.St.Paths++
			e.sh.mu.Lock()
			e.sh.paths++
			if e.Cfg.MaxPaths > 0 && e.sh.paths >= e.Cfg.MaxPaths && !e.sh.stop {
				e.sh.stop = true
				e.sh.cond.Broadcast()
				e.St.Limits["maxPaths reached"]++
			}
			e.sh.mu.Unlock()
			switch end.kind {
			case "done":
				e.St.PathsDone++
				if len(e.St.Samples) < 3 || (e.St.PathsDone%97 == 0 && len(e.St.Samples) < 8) {
					m, _ := e.solveModel(nil)
					e.St.Samples = append(e.St.Samples, Violation{Harness: e.harness, Kind: "witness", Inputs: e.evalInputs(m), Path: e.pathString(), Tags: e.tags})
				}
			case "assume":
				e.St.PathsAssume++
			case "panic":
				e.St.PathsPanic++
				if !e.Cfg.PanicOK {
					e.recordViolation("panic", end.msg, nil)
				}
			case "unsupported":
				e.St.Unsupported[end.msg]++
			case "limit":
				e.St.Limits[end.msg]++
			case "deadlock", "exit":
				e.St.Ends[end.kind+": "+end.msg]++
			case "violation-end":
			}
		}
		if e.S.NumDefs() > 200000 {
			e.S.Restart()
			e.asserted = nil
		}
		e.donate()
		if !e.backtrack() {
			return
		}
	}
}

func (e *Exec) runOnce(fn *ssa.Function) (end pathEnd) {
	defer func() {
		if r := recover(); r != nil {
			switch x := r.(type) {
			case pathEnd:
				end = x
			case *goPanic:
				end = pathEnd{"panic", e.panicString(x)}
			case runtime.Error:
				// the interpreter itself failed on code it does not model (e.g. internals of a library function that has
				// no stub): the path is inconclusive, never a pass and never a crash of the whole check
				end = pathEnd{"unsupported", "engine could not interpret this path: " + x.Error()}
			default:
				panic(r)
			}
		}
	}()
	e.callFunction(fn, nil, nil, nil)
	return pathEnd{"done", ""}
}

func (e *Exec) panicString(p *goPanic) string {
	if p.msg != "" {
		return p.msg
	}
	if iv, ok := p.val.(Iface); ok && iv.T != nil {
		if s, ok := iv.V.(Str); ok {
			if gs, ok := e.goString(s); ok {
				return "panic: " + gs
			}
		}
		return "panic: value of type " + iv.T.String()
	}
	return "panic"
}

func (e *Exec) backtrack() bool {
	for len(e.stack) > e.base {
		d := &e.stack[len(e.stack)-1]
		switch d.kind {
		case 'b':
			if len(d.alts) > 0 {
				d.choice = d.alts[0]
				d.alts = nil
				return true
			}
		case 'p':
			if d.choice+1 < d.n {
				d.choice++
				return true
			}
		case 'c':
			if !d.dead && !d.needNext {
				d.tried = append(d.tried, d.cur)
				d.needNext = true
				return true
			}
		}
		e.stack = e.stack[:len(e.stack)-1]
	}
	return false
}

func (e *Exec) pathString() string { return e.prefixKey(len(e.stack)) }

func (e *Exec) pathStringOld() string {
	var sb strings.Builder
	for _, d := range e.stack {
		switch d.kind {
		case 'b':
			if d.choice == 1 {
				sb.WriteByte('T')
			} else {
				sb.WriteByte('F')
			}
		case 'p':
			fmt.Fprintf(&sb, "p%d", d.choice)
		case 'c':
			fmt.Fprintf(&sb, "c%d", d.cur)
		}
	}
	return sb.String()
}

func (e *Exec) pushed()   {}
func (e *Exec) replayed() {}

func (e *Exec) prefixKey(n int) string {
	var sb strings.Builder
	for _, d := range e.stack[:n] {
		switch d.kind {
		case 'b':
			if d.choice == 1 {
				sb.WriteByte('T')
			} else {
				sb.WriteByte('F')
			}
		case 'p':
			fmt.Fprintf(&sb, "p%d.", d.choice)
		case 'c':
			fmt.Fprintf(&sb, "c%d.", d.cur)
		}
	}
	return sb.String()
}

// ---------------------------------------------------------------- path condition

func (e *Exec) assume(c *term.Term, side bool) {
	lit := c
	if !side {
		lit = e.TB.Not(c)
	}
	e.pc = append(e.pc, lit)
	e.pcLit[c.ID] = side
	// mirror into the solver's assertion stack (one scope per literal); a replayed prefix that
	// is already asserted is left in place, so the solver keeps what it learned about it
	if e.S.Broken {
		e.pc = e.pc[:len(e.pc)-1]
		e.resync()
		e.pc = append(e.pc, lit)
	}
	i := len(e.pc) - 1
	if i < len(e.asserted) {
		if e.asserted[i] == lit {
			return
		}
		e.S.Pop(len(e.asserted) - i)
		e.asserted = e.asserted[:i]
	}
	e.S.Push()
	e.S.Assert(lit)
	e.asserted = append(e.asserted, lit)
}

// syncSolver drops assertions of a previous, longer path.
func (e *Exec) syncSolver() {
	if len(e.asserted) > len(e.pc) {
		e.S.Pop(len(e.asserted) - len(e.pc))
		e.asserted = e.asserted[:len(e.pc)]
	}
}

// resync rebuilds the solver's assertion stack from the path condition after a restart.
func (e *Exec) resync() {
	e.S.Restart()
	e.asserted = e.asserted[:0]
	for _, lit := range e.pc {
		e.S.Push()
		e.S.Assert(lit)
		e.asserted = append(e.asserted, lit)
	}
}

func (e *Exec) check(extra *term.Term) smt.Result {
	if e.S.Broken {
		e.resync()
	}
	e.syncSolver()
	r := e.S.CheckAssuming(extra)
	if e.S.Broken {
		// the resource limit was hit: the context is unusable until restarted; the answer stays unknown
		e.resync()
		r = smt.Unknown
	}
	if r == smt.Unknown {
		e.St.Unknowns++
	}
	return r
}

// solveModel returns a model of pc (and extra, if non-nil) computed in a clean solver context.
func (e *Exec) solveModel(extra *term.Term) (map[string]uint64, smt.Result) {
	lits := make([]*term.Term, 0, len(e.pc)+1)
	lits = append(lits, e.pc...)
	if extra != nil {
		lits = append(lits, extra)
	}
	vals, r := e.S.Model(lits, e.vars)
	if r != smt.Sat {
		if r == smt.Unknown {
			e.St.Unknowns++
		}
		return nil, r
	}
	m := map[string]uint64{}
	for t, v := range vals {
		m[t.Name] = v
	}
	return m, r
}

func (e *Exec) evalTerm(t *term.Term, m map[string]uint64) uint64 {
	return term.Eval(t, m, map[int]uint64{})
}

func (e *Exec) known(c *term.Term) (bool, bool) {
	if c.Op == term.OConst {
		return c.Val == 1, true
	}
	if s, ok := e.pcLit[c.ID]; ok {
		return s, true
	}
	if c.Op == term.ONot {
		if s, ok := e.pcLit[c.Args[0].ID]; ok {
			return !s, true
		}
	}
	return false, false
}

// branch decides a symbolic condition, forking when both sides are feasible.
func (e *Exec) branch(c *term.Term) bool {
	if v, ok := e.known(c); ok {
		return v
	}
	if e.pr != nil {
		k := e.procEvent(&Event{Kind: "branch", Guard: term.String(c), Site: e.siteName("br")}, 2)
		return k == 1
	}
	if e.pos < len(e.stack) {
		d := &e.stack[e.pos]
		e.pos++
		if d.kind != 'b' {
			panic(fmt.Sprintf("vx: replay divergence (expected %c, got branch) at %d in %s", d.kind, e.pos-1, e.harness))
		}
		side := d.choice == 1
		e.assume(c, side)
		e.model = d.models[d.choice]
		e.replayed()
		return side
	}
	e.St.Forks++
	d := decision{kind: 'b'}
	var first bool
	if e.model != nil {
		first = e.evalTerm(c, e.model) == 1
		d.models[b2i(first)] = e.model
		other := !first
		ot := c
		if !other {
			ot = e.TB.Not(c)
		}
		r := e.check(ot)
		if r != smt.Unsat {
			// model of the other side is established lazily when that side is explored
			d.models[b2i(other)] = nil
			d.alts = []int{b2i(other)}
		}
	} else {
		rt := e.check(c)
		rf := smt.Sat // the path condition is feasible: if c is infeasible, not-c is feasible
		if rt != smt.Unsat {
			rf = e.check(e.TB.Not(c))
		}
		switch {
		case rt != smt.Unsat && rf != smt.Unsat:
			first = true
			d.alts = []int{0}
		case rt != smt.Unsat:
			first = true
		case rf != smt.Unsat:
			first = false
		default:
			panic(pathEnd{"assume", "infeasible path condition"})
		}
	}
	d.choice = b2i(first)
	e.stack = append(e.stack, d)
	e.pos++
	e.assume(c, first)
	e.model = d.models[d.choice]
	e.pushed()
	return first
}

// establishModel obtains a model of the current path condition (nil if the solver cannot give one).
func (e *Exec) establishModel() {
	if len(e.vars) == 0 {
		e.model = map[string]uint64{}
		return
	}
	e.model, _ = e.solveModel(nil)
}

func b2i(b bool) int {
	if b {
		return 1
	}
	return 0
}

// pick returns a concrete choice in [0,n), forking over all of them.
func (e *Exec) pick(n int) int {
	if n <= 1 {
		return 0
	}
	if e.pos < len(e.stack) {
		d := &e.stack[e.pos]
		e.pos++
		if d.kind != 'p' || d.pn != n {
			panic(fmt.Sprintf("vx: replay divergence (pick) in %s", e.harness))
		}
		e.replayed()
		return d.choice
	}
	e.stack = append(e.stack, decision{kind: 'p', n: n, pn: n})
	e.pos++
	e.pushed()
	return 0
}

// concretize enumerates the feasible values of t (forking). Small values 0..32 are tried with
// plain feasibility queries first (lengths and counts); other values come from a solver model.
func (e *Exec) concretize(t *term.Term) uint64 {
	if t.Op == term.OConst {
		return t.Val
	}
	if e.pr != nil {
		e.unsupported("concretisation of a state-dependent value in process mode")
	}
	if e.pos < len(e.stack) {
		d := &e.stack[e.pos]
		e.pos++
		if d.kind != 'c' {
			panic(fmt.Sprintf("vx: replay divergence (concretize) in %s", e.harness))
		}
		if d.needNext {
			ex := e.TB.True
			for _, v := range d.tried {
				ex = e.TB.And(ex, e.TB.Not(e.TB.Eq(t, e.TB.Const(t.W, v))))
			}
			r := e.check(ex)
			if r == smt.Unsat {
				d.dead = true
				panic(pathEnd{"exhausted", ""})
			}
			v, ok := e.nextValue(t, d, ex)
			if !ok {
				d.dead = true
				e.St.Limits["concretize: could not enumerate values"]++
				panic(pathEnd{"exhausted", ""})
			}
			d.cur = v
			d.needNext = false
			if len(d.tried) > 4096 {
				d.dead = true
				panic(pathEnd{"limit", "concretize: more than 4096 values"})
			}
		}
		e.assume(e.TB.Eq(t, e.TB.Const(t.W, d.cur)), true)
		e.model = nil
		e.replayed()
		return d.cur
	}
	d := decision{kind: 'c'}
	v, ok := e.nextValue(t, &d, nil)
	if !ok {
		panic(pathEnd{"unsupported", "concretize: no value found"})
	}
	d.cur = v
	e.stack = append(e.stack, d)
	e.pos++
	e.assume(e.TB.Eq(t, e.TB.Const(t.W, v)), true)
	e.model = nil
	e.pushed()
	return v
}

func (e *Exec) nextValue(t *term.Term, d *decision, excl *term.Term) (uint64, bool) {
	for d.n <= 32 {
		v := uint64(d.n)
		d.n++
		if v > term.Mask(t.W) {
			break
		}
		if e.check(e.TB.Eq(t, e.TB.Const(t.W, v))) == smt.Sat {
			return v, true
		}
	}
	// exclude the small candidates already covered
	ex := excl
	if ex == nil {
		ex = e.TB.True
	}
	if t.W > 5 {
		ex = e.TB.And(ex, e.TB.Ult(e.TB.Const(t.W, 32), t))
	}
	m, r := e.solveModel(ex)
	if r != smt.Sat {
		if r == smt.Unknown {
			return 0, false
		}
		// nothing above 32 and nothing untried below: exhausted
		return 0, false
	}
	return e.evalTerm(t, m), true
}

func (e *Exec) concInt(v Value) int {
	iv, ok := v.(Int)
	if !ok {
		e.unsupported(fmt.Sprintf("expected int, got %T", v))
	}
	if iv.T == nil {
		return int(int64(sxt(iv.C, iv.W)))
	}
	c := e.concretize(iv.T)
	return int(int64(sxt(c, iv.W)))
}

func sxt(v uint64, w int) uint64 {
	if w >= 64 {
		return v
	}
	sh := uint(64 - w)
	return uint64(int64(v<<sh) >> sh)
}

// ---------------------------------------------------------------- symbolic inputs

func (e *Exec) freshVar(prefix string, w int) *term.Term {
	name := fmt.Sprintf("%s%d", prefix, e.nvar)
	e.nvar++
	t := e.TB.Var(name, w)
	e.vars = append(e.vars, t)
	return t
}

func (e *Exec) evalInputs(m map[string]uint64) []InputVal {
	out := make([]InputVal, len(e.inputs))
	memo := map[int]uint64{}
	for i, in := range e.inputs {
		o := InputVal{Call: in.Call, Len: in.Len}
		if in.terms != nil {
			o.Vals = make([]uint64, len(in.terms))
			for k, t := range in.terms {
				if m != nil {
					o.Vals[k] = term.Eval(t, m, memo)
				}
			}
		} else {
			o.Vals = in.Vals
		}
		if o.Vals == nil {
			o.Vals = []uint64{}
		}
		out[i] = o
	}
	return out
}

func (e *Exec) recordViolation(kind, msg string, m map[string]uint64) {
	if m == nil {
		m, _ = e.solveModel(nil) // need a model of the path condition
		if m == nil && len(e.vars) > 0 {
			e.St.Limits["counterexample candidate dropped: no model could be produced ("+kind+": "+msg+")"]++
			return
		}
	}
	v := Violation{Harness: e.harness, Kind: kind, Msg: msg, Inputs: e.evalInputs(m), Path: e.pathString(), Tags: append([]string{}, e.tags...)}
	if len(e.St.Violations) < 50 || len(e.St.Violations) < MaxCex {
		e.St.Violations = append(e.St.Violations, v)
	}
	e.sh.mu.Lock()
	e.sh.nviol++
	if e.sh.nviol >= MaxCex {
		e.sh.stop = true // enough counterexamples: stop exploring this harness
		e.sh.cond.Broadcast()
	}
	e.sh.mu.Unlock()
}

func (e *Exec) unsupported(msg string) {
	if e.initing > 0 {
		panic(initAbort{msg})
	}
	panic(pathEnd{"unsupported", msg})
}

type initAbort struct{ msg string }

func (e *Exec) goPanicRuntime(msg string) {
	panic(&goPanic{val: e.runtimeError(msg), msg: "runtime error: " + msg})
}

func (e *Exec) runtimeError(msg string) Value {
	// value of type runtime.errorString (implements error and runtime.Error)
	if rt := e.P.Prog.ImportedPackage("runtime"); rt != nil {
		if tn := rt.Type("errorString"); tn != nil {
			return Iface{T: tn.Type(), V: e.strFromGo(msg)}
		}
	}
	return Iface{T: types.Typ[types.String], V: e.strFromGo("runtime error: " + msg)}
}
