package exec

import (
	"fmt"

	"vx/term"
)

// ---------------------------------------------------------------- navigation

// getAt returns the value at path inside v.
func (e *Exec) getAt(v Value, path []Step) Value {
	for i, st := range path {
		if st.Index {
			arr, ok := v.(*Array)
			if !ok {
				e.unsupported(fmt.Sprintf("index into %T", v))
			}
			if st.T != nil {
				return e.symRead(arr, st.T, path[i+1:])
			}
			if st.N < 0 || st.N >= len(arr.E) {
				e.unsupported("internal: path index out of range")
			}
			v = arr.E[st.N]
		} else {
			s, ok := v.(*Struct)
			if !ok {
				e.unsupported(fmt.Sprintf("field of %T", v))
			}
			v = s.F[st.N]
		}
	}
	return v
}

// symRead: read arr[idx]/rest with a symbolic index -> merged scalar
func (e *Exec) symRead(arr *Array, idx *term.Term, rest []Step) Value {
	n := len(arr.E)
	if n == 0 {
		e.unsupported("symbolic index into empty array")
	}
	vals := make([]Value, n)
	for i := 0; i < n; i++ {
		vals[i] = e.getAt(arr.E[i], rest)
	}
	return e.mergeByIndex(vals, idx)
}

// mergeByIndex builds ite(idx==0, v0, ite(idx==1, v1, ...)) compressing runs of equal values.
func (e *Exec) mergeByIndex(vals []Value, idx *term.Term) Value {
	n := len(vals)
	switch vals[0].(type) {
	case Int:
		ts := make([]*term.Term, n)
		for i, v := range vals {
			iv, ok := v.(Int)
			if !ok {
				e.unsupported("symbolic index: mixed element kinds")
			}
			ts[i] = e.intTerm(iv)
		}
		return e.fromTerm(e.iteChain(ts, idx))
	case Bool:
		ts := make([]*term.Term, n)
		for i, v := range vals {
			ts[i] = e.boolTerm(v.(Bool))
		}
		return e.fromBoolTerm(e.iteChain(ts, idx))
	case *Array:
		// element-wise merge of equal-length arrays of scalars
		a0 := vals[0].(*Array)
		out := make([]Value, len(a0.E))
		for k := range a0.E {
			col := make([]Value, n)
			for i, v := range vals {
				col[i] = v.(*Array).E[k]
			}
			out[k] = e.mergeByIndex(col, idx)
		}
		return &Array{E: out}
	case *Struct:
		s0 := vals[0].(*Struct)
		out := make([]Value, len(s0.F))
		for k := range s0.F {
			col := make([]Value, n)
			for i, v := range vals {
				col[i] = v.(*Struct).F[k]
			}
			out[k] = e.mergeByIndex(col, idx)
		}
		return &Struct{F: out}
	case MapV:
		ms := MapSel{Idx: idx}
		for _, v := range vals {
			mv, ok := v.(MapV)
			if !ok || mv.M == nil || mv.M.TM == nil {
				ms.Maps = nil
				break
			}
			ms.Maps = append(ms.Maps, mv)
		}
		if ms.Maps != nil {
			return ms
		}
	}
	// non-scalar elements: all identical?
	same := true
	for i := 1; i < n; i++ {
		if !e.identical(vals[0], vals[i]) {
			same = false
			break
		}
	}
	if same {
		return vals[0]
	}
	// fall back: concretise the index
	k := int(e.concretize(idx))
	if k < 0 || k >= n {
		e.unsupported("internal: concretized index out of range")
	}
	return vals[k]
}

// iteChain over index ranges with equal values (index is unsigned, already known in range).
func (e *Exec) iteChain(ts []*term.Term, idx *term.Term) *term.Term {
	n := len(ts)
	// runs
	type run struct {
		lo, hi int
		t      *term.Term
	}
	var runs []run
	for i := 0; i < n; {
		j := i
		for j+1 < n && ts[j+1] == ts[i] {
			j++
		}
		runs = append(runs, run{i, j, ts[i]})
		i = j + 1
	}
	// pick the most frequent value as default to shorten the chain
	cnt := map[*term.Term]int{}
	best := runs[len(runs)-1].t
	for _, r := range runs {
		cnt[r.t] += 1
		if cnt[r.t] > cnt[best] {
			best = r.t
		}
	}
	res := best
	w := idx.W
	for i := len(runs) - 1; i >= 0; i-- {
		r := runs[i]
		if r.t == best {
			continue
		}
		var c *term.Term
		if r.lo == r.hi {
			c = e.TB.Eq(idx, e.TB.Const(w, uint64(r.lo)))
		} else {
			c = e.TB.And(e.TB.Ule(e.TB.Const(w, uint64(r.lo)), idx), e.TB.Ule(idx, e.TB.Const(w, uint64(r.hi))))
		}
		res = e.TB.Ite(c, r.t, res)
	}
	return res
}

// setAt returns a copy of v with the value at path replaced by nv (spine copy).
func (e *Exec) setAt(v Value, path []Step, nv Value, guard *term.Term) Value {
	if len(path) == 0 {
		if guard != nil {
			return e.mergeGuard(guard, nv, v)
		}
		return nv
	}
	st := path[0]
	if st.Index {
		arr, ok := v.(*Array)
		if !ok {
			e.unsupported(fmt.Sprintf("store index into %T", v))
		}
		out := make([]Value, len(arr.E))
		copy(out, arr.E)
		if st.T != nil {
			for i := range out {
				g := e.TB.Eq(st.T, e.TB.Const(st.T.W, uint64(i)))
				if guard != nil {
					g = e.TB.And(guard, g)
				}
				out[i] = e.setAt(arr.E[i], path[1:], nv, g)
			}
		} else {
			out[st.N] = e.setAt(arr.E[st.N], path[1:], nv, guard)
		}
		return &Array{E: out}
	}
	s, ok := v.(*Struct)
	if !ok {
		e.unsupported(fmt.Sprintf("store field into %T", v))
	}
	out := make([]Value, len(s.F))
	copy(out, s.F)
	out[st.N] = e.setAt(s.F[st.N], path[1:], nv, guard)
	return &Struct{F: out}
}

// mergeGuard returns ite(g, a, b) for scalars/aggregates of scalars.
func (e *Exec) mergeGuard(g *term.Term, a, b Value) Value {
	if g.Op == term.OConst {
		if g.Val == 1 {
			return a
		}
		return b
	}
	switch x := a.(type) {
	case Int:
		return e.fromTerm(e.TB.Ite(g, e.intTerm(x), e.intTerm(b.(Int))))
	case Bool:
		return e.fromBoolTerm(e.TB.Ite(g, e.boolTerm(x), e.boolTerm(b.(Bool))))
	case *Array:
		y := b.(*Array)
		out := make([]Value, len(x.E))
		for i := range out {
			out[i] = e.mergeGuard(g, x.E[i], y.E[i])
		}
		return &Array{E: out}
	case *Struct:
		y := b.(*Struct)
		out := make([]Value, len(x.F))
		for i := range out {
			out[i] = e.mergeGuard(g, x.F[i], y.F[i])
		}
		return &Struct{F: out}
	}
	if e.identical(a, b) {
		return a
	}
	e.unsupported(fmt.Sprintf("guarded merge of %T", a))
	return nil
}

// identical: cheap structural identity (no terms built)
func (e *Exec) identical(a, b Value) bool {
	switch x := a.(type) {
	case Int:
		y, ok := b.(Int)
		return ok && x == y
	case Bool:
		y, ok := b.(Bool)
		return ok && x == y
	case Ptr:
		y, ok := b.(Ptr)
		return ok && x.Obj == y.Obj && samePath(x.Path, y.Path)
	case Str:
		y, ok := b.(Str)
		if !ok || x.Len != y.Len {
			return false
		}
		if x.Len == 0 {
			return true
		}
		return x.A.Obj == y.A.Obj && x.Off == y.Off && samePath(x.A.Path, y.A.Path)
	case Slice:
		y, ok := b.(Slice)
		return ok && x.A.Obj == y.A.Obj && x.Off == y.Off && x.Len == y.Len && x.Cap == y.Cap && samePath(x.A.Path, y.A.Path)
	case MapV:
		y, ok := b.(MapV)
		return ok && x.M == y.M
	case Iface:
		y, ok := b.(Iface)
		if !ok {
			return false
		}
		if x.T == nil || y.T == nil {
			return x.T == nil && y.T == nil
		}
		return x.T == y.T && e.identical(x.V, y.V)
	case Closure:
		y, ok := b.(Closure)
		return ok && x.Fn == y.Fn && len(x.Bind) == 0 && len(y.Bind) == 0 && x.Nat == y.Nat
	}
	return false
}

func samePath(a, b []Step) bool {
	if len(a) != len(b) {
		return false
	}
	for i := range a {
		if a[i] != b[i] {
			return false
		}
	}
	return true
}

// ---------------------------------------------------------------- load / store

func (e *Exec) load(p Ptr) Value {
	if p.Obj == nil {
		e.goPanicRuntime("invalid memory address or nil pointer dereference")
	}
	e.monRead(p)
	if e.pr != nil {
		if v, ok := e.procLoad(p); ok {
			return v
		}
	}
	if len(p.Path) == 0 {
		p.Obj.ownsArr = false // the loaded aggregate may now be shared
		return p.Obj.V
	}
	return e.getAt(p.Obj.V, p.Path)
}

func (e *Exec) store(p Ptr, v Value) {
	if p.Obj == nil {
		e.goPanicRuntime("invalid memory address or nil pointer dereference")
	}
	e.monWrite(p)
	if e.pr != nil && e.procStore(p, v) {
		return
	}
	if len(p.Path) == 0 {
		p.Obj.V = v
		p.Obj.ownsArr = false
		return
	}
	// fast path: top-level array element, concrete index
	if len(p.Path) == 1 && p.Path[0].Index && p.Path[0].T == nil {
		if arr, ok := p.Obj.V.(*Array); ok && p.Obj.ownsArr {
			arr.E[p.Path[0].N] = v
			return
		}
	}
	p.Obj.V = e.setAt(p.Obj.V, p.Path, v, nil)
	p.Obj.ownsArr = false
	if len(p.Path) >= 1 && p.Path[0].Index {
		// setAt produced a fresh top-level array that this object now owns
		p.Obj.ownsArr = true
	}
}

// loadArr returns the array value at an ArrRef.
func (e *Exec) loadArr(a ArrRef) *Array {
	if a.Obj == nil {
		e.unsupported("internal: loadArr of nil")
	}
	v := e.getAt(a.Obj.V, a.Path)
	arr, ok := v.(*Array)
	if !ok {
		e.unsupported(fmt.Sprintf("internal: ArrRef to %T", v))
	}
	return arr
}

func (e *Exec) elemPtr(a ArrRef, i int) Ptr {
	path := make([]Step, len(a.Path)+1)
	copy(path, a.Path)
	path[len(a.Path)] = Step{Index: true, N: i}
	return Ptr{Obj: a.Obj, Path: path}
}

func (e *Exec) elemPtrSym(a ArrRef, off int, idx *term.Term) Ptr {
	path := make([]Step, len(a.Path)+1)
	copy(path, a.Path)
	t := idx
	if off != 0 {
		t = e.TB.Add(idx, e.TB.Const(idx.W, uint64(off)))
	}
	path[len(a.Path)] = Step{Index: true, T: t}
	return Ptr{Obj: a.Obj, Path: path}
}

func extendPath(p []Step, s Step) []Step {
	out := make([]Step, len(p)+1)
	copy(out, p)
	out[len(p)] = s
	return out
}
