package exec

import (
	"golang.org/x/tools/go/ssa"
)

// Clock stubs. time.now returns one of a few fixed concrete instants (harness param "clock", default 0);
// everything above it (time.Now, Time.AppendFormat, Date, Clock...) is executed from SSA on concrete data.
var clockInstants = [][2]int64{
	{1692146115, 208873091}, // 2023-08-16T00:35:15.208873091Z
	{0, 0},                  // 1970-01-01T00:00:00Z
	{253402300799, 999999999}, // 9999-12-31T23:59:59.999999999Z
	{951782400, 1000},       // 2000-02-29T00:00:00.000001Z
}

func init() {
	reg("time.now", func(e *Exec, fn *ssa.Function, a []Value) Value {
		k := e.Cfg.Params["clock"]
		if k < 0 || k >= len(clockInstants) {
			k = 0
		}
		e.monoClock += 1000000
		return Tuple{mkInt(64, uint64(clockInstants[k][0])), mkInt(32, uint64(clockInstants[k][1])), mkInt(64, uint64(e.monoClock))}
	})
	reg("time.runtimeNano", func(e *Exec, fn *ssa.Function, a []Value) Value {
		e.monoClock += 1000000
		return mkInt(64, uint64(e.monoClock))
	})
	reg("time.initLocal", func(e *Exec, fn *ssa.Function, a []Value) Value { return nil })
	reg("(*sync.Once).Do", func(e *Exec, fn *ssa.Function, a []Value) Value {
		k := e.lockKeyOf(a[0])
		if e.onces == nil {
			e.onces = map[lockKey]bool{}
		}
		if e.onces[k] {
			return nil
		}
		e.onces[k] = true
		e.invoke(a[1], nil, nil, nil)
		return nil
	})
}
