package exec

import (
	"golang.org/x/tools/go/ssa"
)

// SSA liveness: which registers of a frame can still be read after a given instruction.
// Used to build canonical control locations in process mode (dead registers are ignored).

type liveInfo struct {
	out   [][]bool          // live-out per block
	after map[[2]int][]bool // cache: (block, idx) -> live after that instruction
}

func (e *Exec) liveness(fn *ssa.Function) *liveInfo {
	fi := e.info(fn)
	if fi.live != nil {
		return fi.live
	}
	n := fi.n
	nb := len(fn.Blocks)
	li := &liveInfo{out: make([][]bool, nb), after: map[[2]int][]bool{}}
	in := make([][]bool, nb)
	for i := range in {
		in[i] = make([]bool, n)
		li.out[i] = make([]bool, n)
	}
	idx := func(v ssa.Value) int {
		if k, ok := fi.idx[v]; ok {
			return k
		}
		return -1
	}
	changed := true
	var ops []*ssa.Value
	for changed {
		changed = false
		for bi := nb - 1; bi >= 0; bi-- {
			b := fn.Blocks[bi]
			out := li.out[bi]
			// successors
			for _, s := range b.Succs {
				sin := in[s.Index]
				// phi operands from this predecessor; phi results are not live-in
				pi := -1
				for k, p := range s.Preds {
					if p == b {
						pi = k
					}
				}
				phiDef := map[int]bool{}
				for _, ins := range s.Instrs {
					phi, ok := ins.(*ssa.Phi)
					if !ok {
						break
					}
					phiDef[idx(phi)] = true
					if pi >= 0 {
						if k := idx(phi.Edges[pi]); k >= 0 && !out[k] {
							out[k] = true
							changed = true
						}
					}
				}
				for k, l := range sin {
					if l && !phiDef[k] && !out[k] {
						out[k] = true
						changed = true
					}
				}
			}
			// in = use ∪ (out − def), walking backwards
			cur := make([]bool, n)
			copy(cur, out)
			for ii := len(b.Instrs) - 1; ii >= 0; ii-- {
				ins := b.Instrs[ii]
				if v, ok := ins.(ssa.Value); ok {
					if k := idx(v); k >= 0 {
						cur[k] = false
					}
				}
				if _, isPhi := ins.(*ssa.Phi); isPhi {
					continue // phi uses belong to predecessors
				}
				ops = ins.Operands(ops[:0])
				for _, op := range ops {
					if *op == nil {
						continue
					}
					if k := idx(*op); k >= 0 {
						cur[k] = true
					}
				}
			}
			for k := range cur {
				if cur[k] != in[bi][k] {
					in[bi][k] = cur[k]
					changed = true
				}
			}
		}
	}
	fi.live = li
	return li
}

// liveAfter returns the registers live after instruction idx of block bi.
func (e *Exec) liveAfter(fn *ssa.Function, bi, idx int) []bool {
	li := e.liveness(fn)
	key := [2]int{bi, idx}
	if l, ok := li.after[key]; ok {
		return l
	}
	fi := e.info(fn)
	cur := make([]bool, fi.n)
	copy(cur, li.out[bi])
	b := fn.Blocks[bi]
	var ops []*ssa.Value
	for ii := len(b.Instrs) - 1; ii > idx; ii-- {
		ins := b.Instrs[ii]
		if v, ok := ins.(ssa.Value); ok {
			if k, ok := fi.idx[v]; ok {
				cur[k] = false
			}
		}
		if _, isPhi := ins.(*ssa.Phi); isPhi {
			continue
		}
		ops = ins.Operands(ops[:0])
		for _, op := range ops {
			if *op == nil {
				continue
			}
			if k, ok := fi.idx[*op]; ok {
				cur[k] = true
			}
		}
	}
	// the instruction in progress: its result is not defined yet, its operands still matter
	if idx >= 0 && idx < len(b.Instrs) {
		if v, ok := b.Instrs[idx].(ssa.Value); ok {
			if k, ok := fi.idx[v]; ok {
				cur[k] = false
			}
		}
		if _, isPhi := b.Instrs[idx].(*ssa.Phi); !isPhi {
			ops = b.Instrs[idx].Operands(ops[:0])
			for _, op := range ops {
				if *op == nil {
					continue
				}
				if k, ok := fi.idx[*op]; ok {
					cur[k] = true
				}
			}
		}
	}
	li.after[key] = cur
	return cur
}
