package exec

import (
	"fmt"
	"go/types"
	"reflect"

	"golang.org/x/tools/go/ssa"
)

// Thin reflect intrinsics (DESIGN.md C09): reflect.Value / reflect.Type are represented by engine
// values answered from go/types information. Only what config.NewFlagSet uses is provided.

type RefVal struct {
	T   types.Type
	Loc *Ptr  // addressable location holding the value (non-nil after Elem / Field)
	V   Value // the value itself when not addressable
}

type RefType struct{ T types.Type }

func kindOf(t types.Type) reflect.Kind {
	switch u := t.Underlying().(type) {
	case *types.Basic:
		switch u.Kind() {
		case types.Bool:
			return reflect.Bool
		case types.Int:
			return reflect.Int
		case types.Int8:
			return reflect.Int8
		case types.Int16:
			return reflect.Int16
		case types.Int32:
			return reflect.Int32
		case types.Int64:
			return reflect.Int64
		case types.Uint:
			return reflect.Uint
		case types.Uint8:
			return reflect.Uint8
		case types.Uint16:
			return reflect.Uint16
		case types.Uint32:
			return reflect.Uint32
		case types.Uint64:
			return reflect.Uint64
		case types.Uintptr:
			return reflect.Uintptr
		case types.Float32:
			return reflect.Float32
		case types.Float64:
			return reflect.Float64
		case types.String:
			return reflect.String
		case types.UnsafePointer:
			return reflect.UnsafePointer
		}
	case *types.Pointer:
		return reflect.Pointer
	case *types.Struct:
		return reflect.Struct
	case *types.Slice:
		return reflect.Slice
	case *types.Array:
		return reflect.Array
	case *types.Map:
		return reflect.Map
	case *types.Chan:
		return reflect.Chan
	case *types.Signature:
		return reflect.Func
	case *types.Interface:
		return reflect.Interface
	}
	return reflect.Invalid
}

func (e *Exec) rtypeIface(t types.Type) Value {
	rp := e.P.Prog.ImportedPackage("reflect")
	if rp == nil {
		e.unsupported("reflect package not loaded")
	}
	return Iface{T: types.NewPointer(rp.Type("rtype").Type()), V: RefType{t}}
}

func (e *Exec) refStruct(v Value) (RefVal, *types.Struct) {
	rv, ok := v.(RefVal)
	if !ok {
		e.unsupported(fmt.Sprintf("reflect: expected reflect.Value, got %T", v))
	}
	st, ok := rv.T.Underlying().(*types.Struct)
	if !ok {
		e.goPanicRuntime("reflect: call of reflect.Value.Field on non-struct Value")
	}
	return rv, st
}

func init() {
	reg("reflect.ValueOf", func(e *Exec, fn *ssa.Function, a []Value) Value {
		iv := a[0].(Iface)
		if iv.T == nil {
			return RefVal{}
		}
		return RefVal{T: iv.T, V: iv.V}
	})
	reg("(reflect.Value).Kind", func(e *Exec, fn *ssa.Function, a []Value) Value {
		rv := a[0].(RefVal)
		if rv.T == nil {
			return mkInt(64, uint64(reflect.Invalid))
		}
		return mkInt(64, uint64(kindOf(rv.T)))
	})
	reg("(reflect.Value).Elem", func(e *Exec, fn *ssa.Function, a []Value) Value {
		rv := a[0].(RefVal)
		pt, ok := rv.T.Underlying().(*types.Pointer)
		if !ok {
			e.unsupported("reflect: Elem of non-pointer")
		}
		var p Ptr
		if rv.Loc != nil {
			p = e.load(*rv.Loc).(Ptr)
		} else {
			p = rv.V.(Ptr)
		}
		if p.Obj == nil {
			return RefVal{}
		}
		return RefVal{T: pt.Elem(), Loc: &p}
	})
	reg("(reflect.Value).Type", func(e *Exec, fn *ssa.Function, a []Value) Value {
		rv := a[0].(RefVal)
		if rv.T == nil {
			e.goPanicRuntime("reflect: call of reflect.Value.Type on zero Value")
		}
		return e.rtypeIface(rv.T)
	})
	reg("(reflect.Value).Field", func(e *Exec, fn *ssa.Function, a []Value) Value {
		rv, st := e.refStruct(a[0])
		i := e.concInt(a[1])
		if i < 0 || i >= st.NumFields() {
			e.goPanicRuntime("reflect: Field index out of range")
		}
		if rv.Loc == nil {
			e.unsupported("reflect: Field of a non-addressable struct")
		}
		p := Ptr{Obj: rv.Loc.Obj, Path: extendPath(rv.Loc.Path, Step{N: i})}
		return RefVal{T: st.Field(i).Type(), Loc: &p}
	})
	reg("(reflect.Value).Addr", func(e *Exec, fn *ssa.Function, a []Value) Value {
		rv := a[0].(RefVal)
		if rv.Loc == nil {
			e.goPanicRuntime("reflect.Value.Addr of unaddressable value")
		}
		return RefVal{T: types.NewPointer(rv.T), V: *rv.Loc}
	})
	reg("(reflect.Value).Interface", func(e *Exec, fn *ssa.Function, a []Value) Value {
		rv := a[0].(RefVal)
		if rv.T == nil {
			e.goPanicRuntime("reflect: call of reflect.Value.Interface on zero Value")
		}
		if rv.Loc != nil {
			return Iface{T: rv.T, V: e.load(*rv.Loc)}
		}
		return Iface{T: rv.T, V: rv.V}
	})
	reg("(*reflect.rtype).Kind", func(e *Exec, fn *ssa.Function, a []Value) Value {
		return mkInt(64, uint64(kindOf(a[0].(RefType).T)))
	})
	reg("(*reflect.rtype).NumField", func(e *Exec, fn *ssa.Function, a []Value) Value {
		st, ok := a[0].(RefType).T.Underlying().(*types.Struct)
		if !ok {
			e.goPanicRuntime("reflect: NumField of non-struct type")
		}
		return mkInt(64, uint64(st.NumFields()))
	})
	reg("(*reflect.rtype).Field", func(e *Exec, fn *ssa.Function, a []Value) Value {
		st, ok := a[0].(RefType).T.Underlying().(*types.Struct)
		if !ok {
			e.goPanicRuntime("reflect: Field of non-struct type")
		}
		i := e.concInt(a[1])
		if i < 0 || i >= st.NumFields() {
			e.goPanicRuntime("reflect: Field index out of bounds")
		}
		f := st.Field(i)
		sft := fn.Signature.Results().At(0).Type() // reflect.StructField
		sst := sft.Underlying().(*types.Struct)
		sv := e.zero(sft).(*Struct)
		sv = e.setField(sv, sst, "Name", e.strFromGo(f.Name()))
		if !f.Exported() && f.Pkg() != nil {
			sv = e.setField(sv, sst, "PkgPath", e.strFromGo(f.Pkg().Path()))
		}
		sv = e.setField(sv, sst, "Type", e.rtypeIface(f.Type()))
		tag, _ := reflect.StructTag(st.Tag(i)), 0
		sv = e.setField(sv, sst, "Tag", e.strFromGo(string(tag)))
		sv = e.setField(sv, sst, "Anonymous", Bool{C: f.Embedded()})
		return sv
	})
	reg("(*reflect.rtype).String", func(e *Exec, fn *ssa.Function, a []Value) Value {
		return e.strFromGo(a[0].(RefType).T.String())
	})
	reg("(*reflect.rtype).Name", func(e *Exec, fn *ssa.Function, a []Value) Value {
		if n, ok := a[0].(RefType).T.(*types.Named); ok {
			return e.strFromGo(n.Obj().Name())
		}
		return Str{}
	})
}
