package exec

import (
	"fmt"
	"go/types"
	"runtime"
	"strings"

	"golang.org/x/tools/go/ssa"
)

// ModulePrefix: packages under this import-path prefix are "under test": their package-level
// state is re-initialised on every path. Other packages are initialised once per worker and
// their init-time objects are frozen (a write ends the path as unsupported).
var ModulePrefix = "github.com/whoisnian/glb"

func underTest(p *ssa.Package) bool {
	return p != nil && strings.HasPrefix(p.Pkg.Path(), ModulePrefix)
}

func (e *Exec) globalObj(g *ssa.Global) *Obj {
	if underTest(g.Pkg) {
		if o, ok := e.globals[g]; ok {
			return o
		}
		e.initPackage(g.Pkg, e.globals, false)
		if o, ok := e.globals[g]; ok {
			return o
		}
	} else {
		if e.stdGlobals == nil {
			e.stdGlobals = map[*ssa.Global]*Obj{}
		}
		if o, ok := e.stdGlobals[g]; ok {
			return o
		}
		e.initPackage(g.Pkg, e.stdGlobals, true)
		if o, ok := e.stdGlobals[g]; ok {
			return o
		}
	}
	panic("vx: global not materialised: " + g.String())
}

// initPackage materialises all globals of pkg and runs its init function best-effort:
// calls into other packages' init are skipped (they are initialised on demand), an instruction
// that cannot be executed leaves an Opaque value.
func (e *Exec) initPackage(pkg *ssa.Package, into map[*ssa.Global]*Obj, freeze bool) {
	var created []*Obj
	for _, m := range pkg.Members {
		if g, ok := m.(*ssa.Global); ok {
			et := deref(g.Type())
			o := &Obj{ID: 0, V: e.zero(et), Site: "global " + g.String(), Glob: g, Epoch: -1}
			if _, isArr := o.V.(*Array); isArr {
				o.ownsArr = true
			}
			into[g] = o
			created = append(created, o)
		}
	}
	initFn := pkg.Func("init")
	if initFn == nil || initFn.Blocks == nil {
		return
	}
	savedSeq, savedEpoch, savedSteps := e.objSeq, e.epoch, e.steps
	savedMon := e.mon
	e.mon = nil
	savedPr, savedGo := e.pr, e.collectGo
	e.pr, e.collectGo = nil, false
	defer func() { e.pr, e.collectGo = savedPr, savedGo }()
	e.initing++
	e.initPkg = append(e.initPkg, pkg)
	startSeq := e.objSeq
	startAlloc, startMaps := len(e.initAllocs), len(e.initMaps)
	func() {
		defer func() {
			e.initing--
			e.initPkg = e.initPkg[:len(e.initPkg)-1]
			if r := recover(); r != nil {
				if _, ok := r.(initAbort); ok {
					return // rest of the init is skipped; untouched globals keep zero values
				}
				if _, ok := r.(*goPanic); ok {
					return
				}
				if _, ok := r.(runtime.Error); ok {
					return
				}
				panic(r)
			}
		}()
		fi := e.info(initFn)
		fr := &frame{fn: initFn, info: fi, regs: make([]Value, fi.n), isInit: true}
		e.depth++
		defer func() { e.depth-- }()
		e.runFrame(fr)
	}()
	if freeze {
		for _, o := range created {
			o.Frozen = true
		}
		for _, o := range e.initAllocs[startAlloc:] {
			o.Frozen = true
		}
		for _, m := range e.initMaps[startMaps:] {
			m.Frozen = true
		}
	}
	e.initAllocs = e.initAllocs[:startAlloc]
	e.initMaps = e.initMaps[:startMaps]
	_ = startSeq
	e.steps = savedSteps
	e.epoch = savedEpoch
	e.mon = savedMon
	_ = savedSeq
}

func deref(t types.Type) types.Type {
	return t.Underlying().(*types.Pointer).Elem()
}

// execInitInstr runs one instruction of a package init function, tolerating failures.
func (e *Exec) execInitInstr(fr *frame, instr ssa.Instruction) {
	if c, ok := instr.(*ssa.Call); ok {
		if cal := c.Call.StaticCallee(); cal != nil && cal.Name() == "init" && cal.Pkg != fr.fn.Pkg && cal.Synthetic != "" {
			return // other packages are initialised on demand
		}
	}
	defer func() {
		if r := recover(); r != nil {
			switch x := r.(type) {
			case initAbort:
				if v, ok := instr.(ssa.Value); ok {
					e.set(fr, v, Opaque{x.msg})
				}
			case *goPanic:
				if v, ok := instr.(ssa.Value); ok {
					e.set(fr, v, Opaque{"panic during init"})
				}
			case runtime.Error:
				if v, ok := instr.(ssa.Value); ok {
					e.set(fr, v, Opaque{"init: " + x.Error()})
				}
			default:
				panic(r)
			}
		}
	}()
	e.execInstr(fr, instr)
}

func (e *Exec) dumpGlobal(g *ssa.Global) string { return fmt.Sprint(e.show(e.globalObj(g).V)) }
