package exec

import (
	"fmt"
	"go/types"
	"os"
	"path/filepath"
	"regexp"
	"runtime"
	"strconv"
	"strings"
	"sync"

	"golang.org/x/tools/go/ssa"
	"vx/term"
)

func (e *Exec) callBuiltin(b *ssa.Builtin, args []Value, call *ssa.CallCommon, deferOf *frame) Value {
	switch b.Name() {
	case "len":
		switch v := args[0].(type) {
		case Str:
			return mkInt(64, uint64(v.Len))
		case Slice:
			return mkInt(64, uint64(v.Len))
		case MapV:
			if v.M == nil {
				return mkInt(64, 0)
			}
			return mkInt(64, uint64(len(v.M.Ents)))
		case ChanV:
			if e.pr != nil {
				return e.procLen(v)
			}
			if v.C == nil {
				return mkInt(64, 0)
			}
			return mkInt(64, uint64(len(v.C.Buf)))
		case *Array:
			return mkInt(64, uint64(len(v.E)))
		case Ptr: // *array
			if pt, ok := call.Args[0].Type().Underlying().(*types.Pointer); ok {
				if at, ok := pt.Elem().Underlying().(*types.Array); ok {
					return mkInt(64, uint64(at.Len()))
				}
			}
		}
	case "cap":
		switch v := args[0].(type) {
		case Slice:
			return mkInt(64, uint64(v.Cap))
		case ChanV:
			if v.C == nil {
				return mkInt(64, 0)
			}
			return mkInt(64, uint64(v.C.Cap))
		case *Array:
			return mkInt(64, uint64(len(v.E)))
		}
	case "append":
		return e.appendBuiltin(args, call)
	case "copy":
		dst := args[0].(Slice)
		var src []Value
		switch s := args[1].(type) {
		case Slice:
			src = e.sliceElems(s)
		case Str:
			src = e.strBytes(s)
		}
		n := dst.Len
		if len(src) < n {
			n = len(src)
		}
		tmp := make([]Value, n)
		copy(tmp, src[:n])
		for i := 0; i < n; i++ {
			e.store(e.elemPtr(dst.A, dst.Off+i), tmp[i])
		}
		return mkInt(64, uint64(n))
	case "delete":
		e.mapDelete(args[0], args[1])
		return nil
	case "close":
		if e.pr != nil {
			e.procClose(args[0])
			return nil
		}
		c := args[0].(ChanV).C
		if c == nil {
			e.goPanicRuntime("close of nil channel")
		}
		if c.Closed {
			e.goPanicRuntime("close of closed channel")
		}
		c.Closed = true
		return nil
	case "panic":
		panic(&goPanic{val: args[0]})
	case "recover":
		if deferOf != nil {
			// recover() called directly as the deferred function: nothing to return to
			if deferOf.panic != nil {
				deferOf.panic = nil
			}
			return Iface{}
		}
		return e.recoverCall()
	case "min", "max":
		res := args[0]
		t := call.Args[0].Type()
		for _, a := range args[1:] {
			var tok = 0
			_ = tok
			less := e.binopLess(t, a, res)
			if b.Name() == "max" {
				less = e.binopLess(t, res, a)
			}
			lb := less.(Bool)
			if lb.T == nil {
				if lb.C {
					res = a
				}
			} else {
				res = e.mergeGuard(lb.T, a, res)
			}
		}
		return res
	case "print", "println":
		return nil
	case "clear":
		switch v := args[0].(type) {
		case MapV:
			if v.M != nil {
				e.monWriteMap(v.M)
				v.M.Ents = nil
			}
		case Slice:
			et := call.Args[0].Type().Underlying().(*types.Slice).Elem()
			for i := 0; i < v.Len; i++ {
				e.store(e.elemPtr(v.A, v.Off+i), e.zero(et))
			}
		}
		return nil
	case "ssa:wrapnilchk":
		if p, ok := args[0].(Ptr); ok && p.Obj == nil {
			e.goPanicRuntime("value method called using nil pointer")
		}
		return args[0]
	// unsafe
	case "StringData":
		s := args[0].(Str)
		if s.Len == 0 {
			return Ptr{}
		}
		return e.elemPtr(s.A, s.Off)
	case "SliceData":
		s := args[0].(Slice)
		if s.A.Obj == nil {
			return Ptr{}
		}
		if s.Cap == 0 {
			// pointer to a zero-size location: keep identity of the array
			return e.elemPtr(s.A, s.Off)
		}
		return e.elemPtr(s.A, s.Off)
	case "String":
		p := args[0].(Ptr)
		n := e.concInt(args[1])
		if n == 0 {
			return Str{}
		}
		a, off := e.ptrToElem(p)
		return Str{A: a, Off: off, Len: n}
	case "Slice":
		p := args[0].(Ptr)
		n := e.concInt(args[1])
		if p.Obj == nil {
			if n != 0 {
				e.goPanicRuntime("unsafe.Slice: ptr is nil and len is not zero")
			}
			return Slice{}
		}
		a, off := e.ptrToElem(p)
		return Slice{A: a, Off: off, Len: n, Cap: n}
	}
	e.unsupported("builtin " + b.Name())
	return nil
}

func (e *Exec) binopLess(t types.Type, a, b Value) Value {
	return e.binop(lssTok, t, a, b, t)
}

// ptrToElem splits a pointer to an array element into (array location, index).
func (e *Exec) ptrToElem(p Ptr) (ArrRef, int) {
	if p.Obj == nil {
		e.goPanicRuntime("invalid memory address or nil pointer dereference")
	}
	if len(p.Path) == 0 {
		e.unsupported("unsafe: pointer is not an array element")
	}
	last := p.Path[len(p.Path)-1]
	if !last.Index || last.T != nil {
		e.unsupported("unsafe: pointer is not a concrete array element")
	}
	return ArrRef{Obj: p.Obj, Path: p.Path[:len(p.Path)-1]}, last.N
}

func (e *Exec) recoverCall() Value {
	// the frame calling recover() is the top interpreted frame; its deferOf is the panicking frame
	fr := e.curFrame
	if fr == nil || fr.deferOf == nil || fr.deferOf.panic == nil {
		return Iface{}
	}
	p := fr.deferOf.panic
	fr.deferOf.panic = nil
	if iv, ok := p.val.(Iface); ok {
		return iv
	}
	return Iface{T: types.Typ[types.String], V: p.val}
}

// ---------------------------------------------------------------- append with the real growth policy

func (e *Exec) appendBuiltin(args []Value, call *ssa.CallCommon) Value {
	s := args[0].(Slice)
	var add []Value
	switch a := args[1].(type) {
	case Slice:
		add = e.sliceElems(a)
	case Str:
		add = e.strBytes(a)
	default:
		e.unsupported(fmt.Sprintf("append of %T", args[1]))
	}
	if len(add) == 0 {
		return s
	}
	// copy sources first (may alias destination)
	tmp := make([]Value, len(add))
	copy(tmp, add)
	newLen := s.Len + len(tmp)
	if newLen <= s.Cap {
		for i, v := range tmp {
			e.store(e.elemPtr(s.A, s.Off+s.Len+i), v)
		}
		return Slice{A: s.A, Off: s.Off, Len: newLen, Cap: s.Cap}
	}
	et := call.Args[0].Type().Underlying().(*types.Slice).Elem()
	newCap := e.growCap(et, s.Cap, newLen)
	el := make([]Value, newCap)
	old := e.sliceElems(s)
	copy(el, old)
	copy(el[len(old):], tmp)
	if newCap > newLen {
		z := e.zero(et)
		for i := newLen; i < newCap; i++ {
			el[i] = z
		}
	}
	o := e.newObj(&Array{E: el}, "append")
	o.ownsArr = true
	if s.A.Obj != nil && s.A.Obj.Pool {
		o.Pool = true // regrown copy of a pooled buffer stays owned by the same holder
	}
	if s.A.Obj != nil {
		o.From = s.A.Obj
	}
	return Slice{A: ArrRef{Obj: o}, Len: newLen, Cap: newCap}
}

func (e *Exec) growCap(et types.Type, oldCap, newLen int) int {
	size := int(e.P.Sizes.Sizeof(et))
	if size == 0 {
		return newLen
	}
	newcap := nextSliceCap(newLen, oldCap)
	noscan := !hasPointers(et)
	mem := roundUpSize(uintptr(newcap)*uintptr(size), noscan)
	return int(mem / uintptr(size))
}

func nextSliceCap(newLen, oldCap int) int {
	newcap := oldCap
	doublecap := newcap + newcap
	if newLen > doublecap {
		return newLen
	}
	const threshold = 256
	if oldCap < threshold {
		return doublecap
	}
	for {
		newcap += (newcap + 3*threshold) >> 2
		if uint(newcap) >= uint(newLen) {
			break
		}
	}
	if newcap <= 0 {
		return newLen
	}
	return newcap
}

var (
	sizeClasses     []int
	sizeClassesOnce sync.Once
	SizeClassSource string
)

var defaultSizeClasses = []int{0, 8, 16, 24, 32, 48, 64, 80, 96, 112, 128, 144, 160, 176, 192, 208, 224, 240, 256, 288, 320, 352, 384, 416, 448, 480, 512, 576, 640, 704, 768, 896, 1024, 1152, 1280, 1408, 1536, 1792, 2048, 2304, 2688, 3072, 3200, 3456, 4096, 4864, 5376, 6144, 6528, 6784, 6912, 8192, 9472, 9728, 10240, 10880, 12288, 13568, 14336, 16384, 18432, 19072, 20480, 21760, 24576, 27264, 28672, 32768}

func loadSizeClasses() {
	sizeClasses = defaultSizeClasses
	SizeClassSource = "built-in table (go1.23)"
	data, err := os.ReadFile(filepath.Join(runtime.GOROOT(), "src", "runtime", "sizeclasses.go"))
	if err != nil {
		return
	}
	re := regexp.MustCompile(`(?s)var class_to_size = \[_NumSizeClasses\]uint16\{([^}]*)\}`)
	m := re.FindSubmatch(data)
	if m == nil {
		return
	}
	var out []int
	for _, f := range strings.Split(string(m[1]), ",") {
		f = strings.TrimSpace(f)
		if f == "" {
			continue
		}
		n, err := strconv.Atoi(f)
		if err != nil {
			return
		}
		out = append(out, n)
	}
	if len(out) > 10 {
		sizeClasses = out
		SizeClassSource = "GOROOT/src/runtime/sizeclasses.go"
	}
}

func roundUpSize(size uintptr, noscan bool) uintptr {
	sizeClassesOnce.Do(loadSizeClasses)
	const maxSmallSize = 32768
	const mallocHeaderSize = 8
	const minSizeForMallocHeader = 512
	const pageSize = 8192
	req := size
	if req <= maxSmallSize-mallocHeaderSize {
		if !noscan && req > minSizeForMallocHeader {
			req += mallocHeaderSize
		}
		for _, c := range sizeClasses {
			if uintptr(c) >= req {
				return uintptr(c) - (req - size)
			}
		}
	}
	req += pageSize - 1
	return req &^ (pageSize - 1)
}

func hasPointers(t types.Type) bool {
	switch u := t.Underlying().(type) {
	case *types.Basic:
		return u.Kind() == types.String || u.Kind() == types.UnsafePointer
	case *types.Array:
		return u.Len() > 0 && hasPointers(u.Elem())
	case *types.Struct:
		for i := 0; i < u.NumFields(); i++ {
			if hasPointers(u.Field(i).Type()) {
				return true
			}
		}
		return false
	}
	return true
}

var _ = term.Mask
