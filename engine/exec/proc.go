package exec

// Engine 2 front end: extraction of a transition system from the SSA of goroutine bodies.
// A "setup" harness function builds the shared heap (running the real constructors; `go`
// statements and vxProc calls register processes). Each process body is then explored by the
// same re-execution DFS as Engine 1, but every *visible operation* (channel op / select, mutex,
// WaitGroup, atomic, plain access to a shared cell that some process writes, task Start, timers,
// harness observations) becomes an event whose outcome is a nondeterministic pick; control
// locations are canonical hashes of the process-private state. The result (JSON) is the input
// of the SMT back end (/verif/engine2/ts.py).

import (
	"encoding/json"
	"fmt"
	"go/types"
	"sort"
	"strings"

	"golang.org/x/tools/go/ssa"
	"vx/term"
)

type ValX struct {
	Kind string `json:"kind"` // tok | reg | int | bool | unit | pval | pvalreg | nil | opaque
	Tok  int    `json:"tok,omitempty"`
	Reg  string `json:"reg,omitempty"`
	Smt  string `json:"smt,omitempty"`
	W    int    `json:"w,omitempty"`
	Txt  string `json:"txt,omitempty"`
}

type SelCase struct {
	Dir  string `json:"dir"` // send | recv
	Chan int    `json:"chan"`
	Val  *ValX  `json:"val,omitempty"`
	Res  string `json:"res,omitempty"` // register receiving the value
}

type Event struct {
	Kind     string    `json:"kind"`
	Blocking bool      `json:"blocking,omitempty"`
	Cases    []SelCase `json:"cases,omitempty"`
	Outcome  int       `json:"outcome"`
	Chan     int       `json:"chan,omitempty"`
	Cell     string    `json:"cell,omitempty"`
	Val      *ValX     `json:"val,omitempty"`
	Res      string    `json:"res,omitempty"`
	ResW     int       `json:"resw,omitempty"`
	Guard    string    `json:"guard,omitempty"`
	Op       string    `json:"op,omitempty"`
	Name     string    `json:"name,omitempty"`
	Args     []ValX    `json:"args,omitempty"`
	N        int       `json:"n,omitempty"`
	Site     string    `json:"site,omitempty"`
	CommaOk  bool      `json:"commaok,omitempty"`
}

type Transition struct {
	From int   `json:"from"`
	To   int   `json:"to"`
	Ev   Event `json:"ev"`
}

type ProcTS struct {
	Name   string            `json:"name"`
	Fn     string            `json:"fn"`
	Init   int               `json:"init"`
	NLocs  int               `json:"nlocs"`
	Exit   int               `json:"exit"`
	Crash  int               `json:"crash"`
	Trans  []Transition      `json:"trans"`
	Vars   map[string]int    `json:"vars"` // local variable -> width (0: token register, -1: panic value register)
	LocDbg map[string]string `json:"locdbg,omitempty"`

	locs   map[string]int
	tkeys  map[string]bool
	Runs   int `json:"runs"`
	Merged int `json:"merged"`
}

type ChanTS struct {
	ID    int    `json:"id"`
	Cap   int    `json:"cap"`
	Elem  string `json:"elem"` // tok | unit | int
	Name  string `json:"name"`
	Timer bool   `json:"timer,omitempty"`
}

type CellTS struct {
	Name string `json:"name"`
	W    int    `json:"w"`    // bit width; 0 = abstract value cell (nil / pval)
	Init string `json:"init"` // smt constant or "nil"
	Kind string `json:"kind"` // plain | atomic | mutex | rwmutex | wg
}

type TS struct {
	Harness string            `json:"harness"`
	Procs   []*ProcTS         `json:"procs"`
	Chans   []ChanTS          `json:"chans"`
	Cells   []CellTS          `json:"cells"`
	NTokens int               `json:"ntokens"`
	Params  map[string]int    `json:"params"`
	Funcs   map[string]int    `json:"funcs"`
	Stubs   map[string]int    `json:"stubs"`
	Notes   []string          `json:"notes"`
	Files   map[string]string `json:"files"`
}

// abstract values
type AbsTok struct {
	Reg string
	Occ int
}
type AbsPV struct { // panic value raised by a task
	Tok *ValX
}
type AbsVal struct { // value loaded from an abstract-valued cell
	Reg string
}

type procSpec struct {
	name string
	fn   Value
	args []Value
}

type procRun struct {
	ts       *TS
	pt       *ProcTS
	idx      int
	prevLoc  int
	prevEv   *Event
	occ      map[string]int
	written  map[string]bool // shared cells written by some process (plain stores)
	pass     int
	chans    map[int]*ChanObj
	cells    map[string]*CellTS
	cellKind map[string]string
}

var absMarker = types.NewNamed(types.NewTypeName(0, nil, "vx.abstract", nil), types.NewStruct(nil, nil), nil)

func init() {
	// vxProc(name string, f func()): register a process (setup phase)
	vxAPI["vxProc"] = func(e *Exec, fn *ssa.Function, a []Value) Value {
		name, _ := e.goString(a[0].(Str))
		e.procs = append(e.procs, procSpec{name: name, fn: a[1]})
		return nil
	}
	// vxObs(name string, args ...any): observation event
	vxAPI["vxObs"] = func(e *Exec, fn *ssa.Function, a []Value) Value {
		if e.pr == nil {
			return nil
		}
		name, _ := e.goString(a[0].(Str))
		ev := &Event{Kind: "obs", Name: name}
		for _, x := range e.sliceElems(a[1].(Slice)) {
			ev.Args = append(ev.Args, e.valX(x))
		}
		e.procEvent(ev, 1)
		return nil
	}
	// vxStart(k int): body of a harness task (only reached for concrete tokens)
	vxAPI["vxStart"] = func(e *Exec, fn *ssa.Function, a []Value) Value {
		if e.pr == nil {
			return nil
		}
		e.startEvent(ValX{Kind: "tok", Tok: e.concInt(a[0])})
		return nil
	}
	// vxAfter: time.After model is installed as an intrinsic below
	reg("time.After", func(e *Exec, fn *ssa.Function, a []Value) Value {
		e.objSeq++
		return ChanV{&ChanObj{ID: e.objSeq, Cap: 1, Timer: true, Epoch: e.epoch}}
	})
}

// ---------------------------------------------------------------- extraction driver

// ExtractTS runs the setup harness and explores every registered process.
func ExtractTS(p *Program, cfg *Config, setup *ssa.Function) (*TS, *Stats) {
	e := &Exec{P: p, Cfg: cfg, TB: term.NewTable(), St: newStats(), sh: &shared{nw: 1}, harness: setup.Name(),
		intrCache: map[*ssa.Function]natFn{}, fnNames: map[*ssa.Function]string{}, fnInfo: map[*ssa.Function]*fnInfo{}, consts: map[*ssa.Const]Value{}, strCache: map[string]*Obj{}}
	e.sh.cond = nil
	ts := &TS{Harness: setup.Name(), Params: cfg.Params, Funcs: map[string]int{}, Stubs: map[string]int{}, Files: p.Files}
	written := map[string]bool{}
	// discover processes
	e.resetPath()
	e.runSetup(setup)
	nproc := len(e.procs)
	names := make([]string, nproc)
	for i, ps := range e.procs {
		names[i] = ps.name
	}
	for pass := 1; pass <= 2; pass++ {
		ts.Procs = nil
		for i := 0; i < nproc; i++ {
			pt := &ProcTS{Name: names[i], Vars: map[string]int{}, locs: map[string]int{}, tkeys: map[string]bool{}, LocDbg: map[string]string{}}
			pr := &procRun{ts: ts, pt: pt, idx: i, written: written, pass: pass, chans: map[int]*ChanObj{}, cells: map[string]*CellTS{}, cellKind: map[string]string{}}
			e.exploreProc(setup, pr)
			pt.NLocs = len(pt.locs)
			ts.Procs = append(ts.Procs, pt)
			if pass == 2 {
				e.collectObjects(ts, pr)
			}
		}
	}
	for k, v := range e.St.Funcs {
		ts.Funcs[k] = v
	}
	for k, v := range e.St.Stubs {
		ts.Stubs[k] = v
	}
	sort.Slice(ts.Chans, func(i, j int) bool { return ts.Chans[i].ID < ts.Chans[j].ID })
	sort.Slice(ts.Cells, func(i, j int) bool { return ts.Cells[i].Name < ts.Cells[j].Name })
	return ts, e.St
}

func (e *Exec) runSetup(setup *ssa.Function) {
	e.procs = nil
	e.pr = nil
	e.epoch = 0
	e.collectGo = true
	e.callFunction(setup, nil, nil, nil)
	e.collectGo = false
	e.epoch = 1
}

func (e *Exec) exploreProc(setup *ssa.Function, pr *procRun) {
	e.stack = nil
	e.base = 0
	for {
		e.resetPath()
		end := func() (end pathEnd) {
			defer func() {
				if r := recover(); r != nil {
					switch x := r.(type) {
					case pathEnd:
						end = x
					case *goPanic:
						end = pathEnd{"panic", e.panicString(x)}
					default:
						panic(r)
					}
				}
			}()
			e.runSetup(setup)
			ps := e.procs[pr.idx]
			pr.pt.Fn = e.show(ps.fn)
			pr.prevLoc = -1
			pr.prevEv = nil
			pr.occ = map[string]int{}
			e.pr = pr
			e.procBase = e.curFrame
			e.invoke(ps.fn, ps.args, nil, nil)
			// normal return: exit location
			e.procFinish("exit")
			return pathEnd{"done", ""}
		}()
		e.pr = nil
		pr.pt.Runs++
		switch end.kind {
		case "done", "merged":
		case "panic":
			e.pr = pr
			e.procFinishCrash(end.msg)
			e.pr = nil
		case "unsupported":
			e.St.Unsupported[pr.pt.Name+": "+end.msg]++
		case "limit":
			e.St.Limits[pr.pt.Name+": "+end.msg]++
		default:
			e.St.Ends[pr.pt.Name+": "+end.kind+": "+end.msg]++
		}
		if pr.pt.Runs > 200000 {
			e.St.Limits[pr.pt.Name+": more than 200000 extraction runs"]++
			return
		}
		if !e.backtrack() {
			return
		}
	}
}

func (pr *procRun) locID(key string) (int, bool) {
	if id, ok := pr.pt.locs[key]; ok {
		return id, false
	}
	id := len(pr.pt.locs)
	pr.pt.locs[key] = id
	return id, true
}

func (e *Exec) addTransition(from, to int, ev *Event) {
	pr := e.pr
	b, _ := json.Marshal(ev)
	k := fmt.Sprintf("%d>%d:%s", from, to, b)
	if pr.pt.tkeys[k] {
		return
	}
	pr.pt.tkeys[k] = true
	pr.pt.Trans = append(pr.pt.Trans, Transition{From: from, To: to, Ev: *ev})
}

// procEvent registers the event at the current location and picks one of its n outcomes.
func (e *Exec) procEvent(ev *Event, n int) int {
	pr := e.pr
	key := e.locKey()
	loc, isNew := pr.locID(key)
	if isNew && len(pr.pt.LocDbg) < 400 {
		pr.pt.LocDbg[fmt.Sprint(loc)] = e.locDbg()
	}
	if pr.prevLoc >= 0 {
		e.addTransition(pr.prevLoc, loc, pr.prevEv)
	} else {
		pr.pt.Init = loc
	}
	if !isNew && e.pos >= len(e.stack) {
		pr.pt.Merged++
		panic(pathEnd{"merged", ""})
	}
	out := 0
	if n > 1 {
		out = e.pick(n)
	}
	cp := *ev
	cp.Outcome = out
	pr.prevLoc = loc
	pr.prevEv = &cp
	return out
}

// setOutcomeInfo lets the caller refine the recorded event after the outcome is known.
func (e *Exec) lastEvent() *Event { return e.pr.prevEv }

func (e *Exec) procFinish(kind string) {
	pr := e.pr
	loc, _ := pr.locID("@" + kind)
	if kind == "exit" {
		pr.pt.Exit = loc
	}
	if pr.prevLoc >= 0 {
		e.addTransition(pr.prevLoc, loc, pr.prevEv)
	} else {
		pr.pt.Init = loc
	}
}

func (e *Exec) procFinishCrash(msg string) {
	pr := e.pr
	loc, _ := pr.locID("@crash")
	pr.pt.Crash = loc
	pr.pt.LocDbg[fmt.Sprint(loc)] = "crash: " + msg
	if pr.prevLoc >= 0 {
		e.addTransition(pr.prevLoc, loc, pr.prevEv)
	}
}

// ---------------------------------------------------------------- location keys

func (e *Exec) locKey() string {
	var sb strings.Builder
	sb.WriteString(e.locSuffix)
	seen := map[*Obj]int{}
	for fr := e.curFrame; fr != nil && fr != e.procBase; fr = fr.caller {
		fmt.Fprintf(&sb, "|%s@%d.%d d%d[", fr.fn.String(), fr.pcBlock, fr.pcIdx, len(fr.defers))
		live := e.liveAfter(fr.fn, fr.pcBlock, fr.pcIdx)
		for i, v := range fr.regs {
			if v == nil || !live[i] {
				continue
			}
			fmt.Fprintf(&sb, "%d=", i)
			e.canon(&sb, v, seen, 0)
			sb.WriteByte(';')
		}
		sb.WriteByte(']')
		if fr.panic != nil {
			sb.WriteString("P")
		}
	}
	return sb.String()
}

func (e *Exec) locDbg() string {
	fr := e.curFrame
	if fr == nil {
		return ""
	}
	var parts []string
	for f := fr; f != nil && f != e.procBase; f = f.caller {
		parts = append(parts, fmt.Sprintf("%s b%d.%d", f.fn.Name(), f.pcBlock, f.pcIdx))
	}
	return strings.Join(parts, " < ")
}

func (e *Exec) canon(sb *strings.Builder, v Value, seen map[*Obj]int, depth int) {
	if depth > 6 {
		sb.WriteString("…")
		return
	}
	switch x := v.(type) {
	case nil:
		sb.WriteString("_")
	case Int:
		if x.T != nil {
			sb.WriteString(term.String(x.T))
		} else {
			fmt.Fprintf(sb, "%d", x.C)
		}
	case Bool:
		if x.T != nil {
			sb.WriteString(term.String(x.T))
		} else {
			fmt.Fprint(sb, x.C)
		}
	case Float:
		fmt.Fprint(sb, x.C)
	case Str:
		if s, ok := e.goString(x); ok {
			fmt.Fprintf(sb, "%q", s)
		} else {
			fmt.Fprintf(sb, "str%d", x.Len)
		}
	case Slice:
		if x.A.Obj == nil {
			sb.WriteString("nilslice")
			return
		}
		fmt.Fprintf(sb, "sl[%d:%d:%d]", x.Off, x.Len, x.Cap)
		e.canonObj(sb, x.A.Obj, x.A.Path, seen, depth)
	case Ptr:
		if x.Obj == nil {
			sb.WriteString("nilptr")
			return
		}
		sb.WriteString("&")
		e.canonObj(sb, x.Obj, x.Path, seen, depth)
	case *Struct:
		sb.WriteString("{")
		for _, f := range x.F {
			e.canon(sb, f, seen, depth+1)
			sb.WriteString(",")
		}
		sb.WriteString("}")
	case *Array:
		fmt.Fprintf(sb, "arr%d[", len(x.E))
		if len(x.E) <= 16 {
			for _, f := range x.E {
				e.canon(sb, f, seen, depth+1)
				sb.WriteString(",")
			}
		}
		sb.WriteString("]")
	case Iface:
		if x.T == nil {
			sb.WriteString("nil")
			return
		}
		sb.WriteString("i(")
		if x.T != absMarker {
			sb.WriteString(x.T.String())
		}
		sb.WriteString(":")
		e.canon(sb, x.V, seen, depth+1)
		sb.WriteString(")")
	case Closure:
		if x.Fn != nil {
			sb.WriteString("fn:" + x.Fn.String())
			for _, b := range x.Bind {
				sb.WriteString("^")
				e.canon(sb, b, seen, depth+1)
			}
		} else if x.Nat != nil {
			sb.WriteString("nat:" + x.Nat.Name)
		} else {
			sb.WriteString("nilfn")
		}
	case BuiltinV:
		sb.WriteString("builtin")
	case MapV:
		if x.M == nil {
			sb.WriteString("nilmap")
		} else {
			fmt.Fprintf(sb, "map#%d", x.M.ID)
		}
	case ChanV:
		if x.C == nil {
			sb.WriteString("nilchan")
		} else if x.C.Timer {
			sb.WriteString("timer")
		} else {
			fmt.Fprintf(sb, "ch#%d", x.C.ID)
		}
	case Tuple:
		sb.WriteString("(")
		for _, f := range x {
			e.canon(sb, f, seen, depth+1)
			sb.WriteString(",")
		}
		sb.WriteString(")")
	case AbsTok:
		sb.WriteString("tok:" + x.Reg)
	case AbsPV:
		sb.WriteString("pv:" + x.Tok.Kind + x.Tok.Reg + fmt.Sprint(x.Tok.Tok))
	case AbsVal:
		sb.WriteString("abs:" + x.Reg)
	case *rangeIter:
		fmt.Fprintf(sb, "iter%d", x.pos)
	default:
		fmt.Fprintf(sb, "%T", v)
	}
}

func (e *Exec) canonObj(sb *strings.Builder, o *Obj, path []Step, seen map[*Obj]int, depth int) {
	if o.Epoch <= 0 { // shared (setup or global): stable identity
		fmt.Fprintf(sb, "S%d%s", o.ID, pathKey(path))
		if o.Glob != nil {
			sb.WriteString(o.Glob.Name())
		}
		return
	}
	if n, ok := seen[o]; ok {
		fmt.Fprintf(sb, "P%d%s", n, pathKey(path))
		return
	}
	n := len(seen)
	seen[o] = n
	fmt.Fprintf(sb, "P%d%s=", n, pathKey(path))
	e.canon(sb, o.V, seen, depth+1)
}

// ---------------------------------------------------------------- value abstraction

func (e *Exec) smt(t *term.Term) string { return term.String(t) }

func (e *Exec) valX(v Value) ValX {
	switch x := v.(type) {
	case Int:
		return ValX{Kind: "int", Smt: e.smt(e.intTerm(x)), W: x.W}
	case Bool:
		return ValX{Kind: "bool", Smt: e.smt(e.boolTerm(x))}
	case *Struct:
		if len(x.F) == 0 {
			return ValX{Kind: "unit"}
		}
	case Iface:
		if x.T == nil {
			return ValX{Kind: "nil"}
		}
		switch a := x.V.(type) {
		case AbsTok:
			if a.Occ != e.pr.occ[a.Reg] {
				e.unsupported("token register " + a.Reg + " used after it was overwritten (aliasing not modelled)")
			}
			return ValX{Kind: "reg", Reg: a.Reg}
		case AbsPV:
			return ValX{Kind: "pval", Reg: a.Tok.Reg, Tok: a.Tok.Tok, Txt: a.Tok.Kind}
		case AbsVal:
			return ValX{Kind: "absreg", Reg: a.Reg}
		case Ptr:
			if k, ok := e.tokenOf(a); ok {
				return ValX{Kind: "tok", Tok: k}
			}
		case Int:
			return ValX{Kind: "int", Smt: e.smt(e.intTerm(a)), W: a.W}
		case Bool:
			return ValX{Kind: "bool", Smt: e.smt(e.boolTerm(a))}
		case Str:
			if s, ok := e.goString(a); ok {
				return ValX{Kind: "opaque", Txt: s}
			}
		}
		var sb strings.Builder
		e.canon(&sb, x, map[*Obj]int{}, 0)
		return ValX{Kind: "opaque", Txt: sb.String()}
	}
	var sb strings.Builder
	e.canon(&sb, v, map[*Obj]int{}, 0)
	return ValX{Kind: "opaque", Txt: sb.String()}
}

// tokenOf recognises a pointer to a harness task object (a struct whose type is named vxTask, field id).
func (e *Exec) tokenOf(p Ptr) (int, bool) {
	if p.Obj == nil || len(p.Path) != 0 {
		return 0, false
	}
	k, ok := e.tokens[p.Obj]
	return k, ok
}

func init() {
	// vxTok(k int, t any): declare that object t is task token k (setup phase)
	vxAPI["vxTok"] = func(e *Exec, fn *ssa.Function, a []Value) Value {
		k := e.concInt(a[0])
		iv := a[1].(Iface)
		p, ok := iv.V.(Ptr)
		if !ok || p.Obj == nil {
			e.unsupported("vxTok: task must be a non-nil pointer")
		}
		if e.tokens == nil {
			e.tokens = map[*Obj]int{}
		}
		e.tokens[p.Obj] = k
		if k+1 > e.ntokens {
			e.ntokens = k + 1
		}
		return nil
	}
}

// ---------------------------------------------------------------- events for the primitives

func (e *Exec) chanRef(c *ChanObj) int {
	if c.Timer {
		return -1
	}
	if c.Epoch > 0 {
		e.unsupported("channel created inside a process (not modelled)")
	}
	e.pr.chans[c.ID] = c
	return c.ID
}

func (e *Exec) siteName(prefix string) string {
	fr := e.curFrame
	if fr == nil {
		return prefix
	}
	return fmt.Sprintf("%s_%s_b%di%d", prefix, fr.fn.Name(), fr.pcBlock, fr.pcIdx)
}

func (e *Exec) newReg(name string, w int) {
	e.pr.occ[name]++
	e.pr.pt.Vars[name] = w
}

// recvValue produces the interpreter value for something received into register reg.
func (e *Exec) recvValue(elem types.Type, reg string) Value {
	switch u := elem.Underlying().(type) {
	case *types.Interface:
		e.newReg(reg, 0)
		return Iface{T: absMarker, V: AbsTok{Reg: reg, Occ: e.pr.occ[reg]}}
	case *types.Struct:
		if u.NumFields() == 0 {
			return &Struct{}
		}
	case *types.Basic:
		if w, _, ok := intWidth(u); ok {
			e.newReg(reg, w)
			return Int{W: w, T: e.TB.Var(reg, w)}
		}
	}
	if named, ok := elem.(*types.Named); ok && named.Obj().Name() == "Time" {
		return e.zero(elem)
	}
	e.unsupported("receive of element type " + elem.String() + " in process mode")
	return nil
}

func (e *Exec) procSelect(fr *frame, in *ssa.Select) Value {
	ev := &Event{Kind: "select", Blocking: in.Blocking, Site: e.siteName("sel")}
	for i, st := range in.States {
		c := e.get(fr, st.Chan).(ChanV).C
		sc := SelCase{}
		if c == nil {
			sc = SelCase{Dir: "nil", Chan: -2}
		} else if st.Dir == types.SendOnly {
			v := e.valX(e.get(fr, st.Send))
			sc = SelCase{Dir: "send", Chan: e.chanRef(c), Val: &v}
		} else {
			sc = SelCase{Dir: "recv", Chan: e.chanRef(c), Res: fmt.Sprintf("%s_c%d", e.siteName("rv"), i)}
		}
		ev.Cases = append(ev.Cases, sc)
	}
	n := len(in.States)
	if !in.Blocking {
		n++
	}
	k := e.procEvent(ev, n)
	tup := in.Type().(*types.Tuple)
	res := make(Tuple, tup.Len())
	for i := 0; i < tup.Len(); i++ {
		res[i] = e.zero(tup.At(i).Type())
	}
	if k == len(in.States) { // default
		e.lastEvent().Outcome = -1
		res[0] = mkInt(64, ^uint64(0))
		return res
	}
	res[0] = mkInt(64, uint64(k))
	st := in.States[k]
	if st.Dir != types.SendOnly {
		ri := 2
		for i := 0; i < k; i++ {
			if in.States[i].Dir == types.RecvOnly {
				ri++
			}
		}
		res[1] = Bool{C: true}
		elem := st.Chan.Type().Underlying().(*types.Chan).Elem()
		res[ri] = e.recvValue(elem, ev.Cases[k].Res)
	}
	return res
}

func (e *Exec) procSend(cv, v Value) {
	c := cv.(ChanV).C
	if c == nil {
		e.unsupported("send on nil channel in process mode")
	}
	vx := e.valX(v)
	ev := &Event{Kind: "select", Blocking: true, Site: e.siteName("send"), Cases: []SelCase{{Dir: "send", Chan: e.chanRef(c), Val: &vx}}}
	e.procEvent(ev, 1)
}

func (e *Exec) procRecv(cv Value, commaOk bool, t types.Type, elem types.Type) Value {
	c := cv.(ChanV).C
	if c == nil {
		e.unsupported("receive on nil channel in process mode")
	}
	reg := e.siteName("rv") + "_c0"
	ev := &Event{Kind: "select", Blocking: true, Site: e.siteName("recv"), Cases: []SelCase{{Dir: "recv", Chan: e.chanRef(c), Res: reg}}, CommaOk: commaOk}
	if commaOk {
		if e.procEvent(ev, 2) == 1 {
			e.lastEvent().Outcome = -2 // channel closed and drained
			return Tuple{e.zero(elem), Bool{C: false}}
		}
		return Tuple{e.recvValue(elem, reg), Bool{C: true}}
	}
	e.procEvent(ev, 1)
	return e.recvValue(elem, reg)
}

func (e *Exec) procClose(cv Value) {
	c := cv.(ChanV).C
	if c == nil {
		e.goPanicRuntime("close of nil channel")
	}
	e.procEvent(&Event{Kind: "close", Chan: e.chanRef(c)}, 1)
}

func (e *Exec) procLen(cv Value) Value {
	c := cv.(ChanV).C
	if c == nil {
		return mkInt(64, 0)
	}
	reg := e.siteName("len")
	// name by occurrence so that several reads in one run stay distinct
	e.pr.occ[reg]++
	reg = fmt.Sprintf("%s_%d", reg, e.pr.occ[reg])
	e.pr.pt.Vars[reg] = 64
	e.procEvent(&Event{Kind: "len", Chan: e.chanRef(c), Res: reg, ResW: 64}, 1)
	return Int{W: 64, T: e.TB.Var(reg, 64)}
}

// startEvent: a task body runs: enter, then (environment) it returns or panics.
func (e *Exec) startEvent(tok ValX) {
	e.procEvent(&Event{Kind: "start_enter", Val: &tok}, 1)
	e.locSuffix = "|running"
	out := e.procEvent(&Event{Kind: "start_exit", Val: &tok}, 2)
	e.locSuffix = ""
	if out == 1 {
		e.lastEvent().Name = "panic"
		panic(&goPanic{val: Iface{T: absMarker, V: AbsPV{Tok: &tok}}, msg: "task panicked"})
	}
	e.lastEvent().Name = "return"
}

func (e *Exec) cellName(p Ptr) string {
	if p.Obj.Glob != nil {
		return "g_" + p.Obj.Glob.Name() + pathKey(p.Path)
	}
	return fmt.Sprintf("o%d%s", p.Obj.ID, pathKey(p.Path))
}

func (e *Exec) isShared(o *Obj) bool { return o != nil && o.Epoch <= 0 }

// procStore / procLoad: plain accesses to shared cells
func (e *Exec) procStore(p Ptr, v Value) bool {
	if !e.isShared(p.Obj) || e.atomicDepth > 0 {
		return false
	}
	for _, s := range p.Path {
		if s.T != nil {
			e.unsupported("store to shared cell with symbolic index in process mode")
		}
	}
	name := e.cellName(p)
	e.pr.written[name] = true
	vx := e.valX(v)
	e.noteCell(name, p, v, "plain")
	e.procEvent(&Event{Kind: "store", Cell: name, Val: &vx, Site: e.siteName("st")}, 1)
	return true
}

func (e *Exec) noteCell(name string, p Ptr, v Value, kind string) {
	if _, ok := e.pr.cells[name]; ok {
		return
	}
	c := &CellTS{Name: name, Kind: kind}
	cur := e.getAt(p.Obj.V, p.Path)
	switch x := cur.(type) {
	case Int:
		c.W = x.W
		c.Init = e.smt(e.intTerm(x))
	case Bool:
		c.W = 1
		if x.C {
			c.Init = "#b1"
		} else {
			c.Init = "#b0"
		}
	case Iface:
		c.W = 0
		c.Init = "nil"
		if x.T != nil {
			c.Init = "other"
		}
	default:
		c.W = 0
		c.Init = "other"
	}
	e.pr.cells[name] = c
}

func (e *Exec) procLoad(p Ptr) (Value, bool) {
	if e.pr.pass < 2 || !e.isShared(p.Obj) || e.atomicDepth > 0 {
		return nil, false
	}
	name := e.cellName(p)
	if !e.pr.written[name] {
		// also: a load of an aggregate containing written cells is not supported
		for w := range e.pr.written {
			if strings.HasPrefix(w, name+".") || strings.HasPrefix(w, name+"[") {
				e.unsupported("load of an aggregate containing a shared written cell: " + name)
			}
		}
		return nil, false
	}
	cur := e.getAt(p.Obj.V, p.Path)
	e.noteCell(name, p, cur, "plain")
	reg := e.siteName("ld")
	e.pr.occ[reg]++
	reg = fmt.Sprintf("%s_%d", reg, e.pr.occ[reg])
	ev := &Event{Kind: "load", Cell: name, Res: reg, Site: e.siteName("ld")}
	switch x := cur.(type) {
	case Int:
		ev.ResW = x.W
		e.pr.pt.Vars[reg] = x.W
		e.procEvent(ev, 1)
		return Int{W: x.W, T: e.TB.Var(reg, x.W)}, true
	case Bool:
		ev.ResW = 1
		e.pr.pt.Vars[reg] = 1
		e.procEvent(ev, 1)
		t := e.TB.Var(reg, 1)
		return e.fromBoolTerm(e.TB.Eq(t, e.TB.Const(1, 1))), true
	case Iface:
		e.pr.pt.Vars[reg] = -1
		e.procEvent(ev, 1)
		return Iface{T: absMarker, V: AbsVal{Reg: reg}}, true
	}
	e.unsupported(fmt.Sprintf("load of shared written cell %s of kind %T", name, cur))
	return nil, false
}

func (e *Exec) procAtomic(op string, p Ptr, arg Value, arg2 Value) Value {
	name := e.cellName(p)
	cur := e.getAt(p.Obj.V, p.Path)
	e.noteCell(name, p, cur, "atomic")
	if c := e.pr.cells[name]; c != nil {
		c.Kind = "atomic"
	}
	w := 64
	if iv, ok := cur.(Int); ok {
		w = iv.W
	}
	ev := &Event{Kind: "atomic", Op: op, Cell: name, Site: e.siteName("at")}
	if arg != nil {
		vx := e.valX(arg)
		ev.Val = &vx
	}
	if arg2 != nil {
		vx := e.valX(arg2)
		ev.Args = []ValX{vx}
	}
	reg := e.siteName("at")
	e.pr.occ[reg]++
	reg = fmt.Sprintf("%s_%d", reg, e.pr.occ[reg])
	ev.Res = reg
	ev.ResW = w
	e.pr.pt.Vars[reg] = w
	if op == "cas" {
		out := e.procEvent(ev, 2)
		return Bool{C: out == 1}
	}
	e.procEvent(ev, 1)
	return Int{W: w, T: e.TB.Var(reg, w)}
}

// procSyncN records a synchronisation event with nOut possible outcomes and returns the chosen one.
func (e *Exec) procSyncN(kind string, p Ptr, nOut int) int {
	name := e.cellName(p)
	if _, ok := e.pr.cells[name]; !ok {
		e.pr.cells[name] = &CellTS{Name: name, W: 64, Init: "#x0000000000000000", Kind: "mutex"}
	}
	return e.procEvent(&Event{Kind: kind, Cell: name, Site: e.siteName(kind)}, nOut)
}

func (e *Exec) procSync(kind string, p Ptr, n int) {
	name := e.cellName(p)
	if _, ok := e.pr.cells[name]; !ok {
		k := "mutex"
		switch kind {
		case "wgadd", "wgdone", "wgwait":
			k = "wg"
		case "rlock", "runlock":
			k = "rwmutex"
		}
		init := "#x0000000000000000"
		if k == "wg" {
			init = fmt.Sprintf("#x%016x", uint64(e.wgs[e.lockKeyOf(p)]))
		}
		e.pr.cells[name] = &CellTS{Name: name, W: 64, Init: init, Kind: k}
	} else if kind == "rlock" || kind == "runlock" {
		e.pr.cells[name].Kind = "rwmutex"
	}
	e.procEvent(&Event{Kind: kind, Cell: name, N: n, Site: e.siteName(kind)}, 1)
}

func (e *Exec) collectObjects(ts *TS, pr *procRun) {
	have := map[int]bool{}
	for _, c := range ts.Chans {
		have[c.ID] = true
	}
	for id, c := range pr.chans {
		if have[id] {
			continue
		}
		ts.Chans = append(ts.Chans, ChanTS{ID: id, Cap: c.Cap, Elem: c.ElemKind, Name: c.Name})
	}
	hc := map[string]int{}
	for i, c := range ts.Cells {
		hc[c.Name] = i
	}
	for n, c := range pr.cells {
		if i, ok := hc[n]; ok {
			if c.Kind != "plain" && ts.Cells[i].Kind == "plain" {
				ts.Cells[i].Kind = c.Kind
			}
			continue
		}
		ts.Cells = append(ts.Cells, *c)
	}
	if e.ntokens > ts.NTokens {
		ts.NTokens = e.ntokens
	}
}
