package exec

import (
	"fmt"
	"go/constant"
	"go/token"
	"go/types"

	"golang.org/x/tools/go/ssa"
	"vx/term"
)

type fnInfo struct {
	seen bool
	live *liveInfo
	idx  map[ssa.Value]int
	n    int
	size int
}

type deferRec struct {
	fn   Value
	args []Value
	call *ssa.CallCommon
}

type frame struct {
	fn      *ssa.Function
	info    *fnInfo
	regs    []Value
	defers  []deferRec
	panic   *goPanic
	deferOf *frame
	iter    map[*ssa.BasicBlock]int
	results Value
	isInit  bool
	caller  *frame
	pcBlock int
	pcIdx   int
}

func (e *Exec) info(fn *ssa.Function) *fnInfo {
	if fi, ok := e.fnInfo[fn]; ok {
		return fi
	}
	fi := &fnInfo{idx: map[ssa.Value]int{}}
	add := func(v ssa.Value) {
		fi.idx[v] = fi.n
		fi.n++
	}
	for _, p := range fn.Params {
		add(p)
	}
	for _, fv := range fn.FreeVars {
		add(fv)
	}
	for _, b := range fn.Blocks {
		for _, in := range b.Instrs {
			fi.size++
			if v, ok := in.(ssa.Value); ok {
				add(v)
			}
		}
	}
	e.fnInfo[fn] = fi
	return fi
}

func (e *Exec) get(fr *frame, v ssa.Value) Value {
	switch x := v.(type) {
	case *ssa.Const:
		return e.constVal(x)
	case *ssa.Global:
		return Ptr{Obj: e.globalObj(x)}
	case *ssa.Function:
		return Closure{Fn: x}
	case *ssa.Builtin:
		return BuiltinV{x}
	}
	i, ok := fr.info.idx[v]
	if !ok {
		panic(fmt.Sprintf("vx: unknown ssa value %s in %s", v.Name(), fr.fn))
	}
	return fr.regs[i]
}

func (e *Exec) set(fr *frame, v ssa.Value, val Value) {
	fr.regs[fr.info.idx[v]] = val
}

func (e *Exec) constVal(c *ssa.Const) Value {
	if v, ok := e.consts[c]; ok {
		return v
	}
	v := e.constValue(c)
	e.consts[c] = v
	return v
}

func (e *Exec) constValue(c *ssa.Const) Value {
	t := c.Type()
	if c.Value == nil {
		if _, ok := t.Underlying().(*types.TypeParam); ok {
			return Opaque{"typeparam const"}
		}
		return e.zero(t)
	}
	if w, _, ok := intWidth(t); ok {
		if c.Value.Kind() == constant.Float {
			f, _ := constant.Float64Val(c.Value)
			return mkInt(w, uint64(int64(f)))
		}
		if u, ok := constant.Uint64Val(constant.ToInt(c.Value)); ok {
			return mkInt(w, u)
		}
		i, _ := constant.Int64Val(constant.ToInt(c.Value))
		return mkInt(w, uint64(i))
	}
	switch {
	case isBool(t):
		return Bool{C: constant.BoolVal(c.Value)}
	case isString(t):
		return e.strFromGo(constant.StringVal(c.Value))
	case isFloat(t):
		f, _ := constant.Float64Val(c.Value)
		return Float{C: f}
	}
	return Opaque{"const of " + t.String()}
}

// ---------------------------------------------------------------- calls

func (e *Exec) callFunction(fn *ssa.Function, args []Value, bind []Value, deferOf *frame) Value {
	if nat := e.intrinsic(fn); nat != nil {
		e.St.Stubs[e.fnName(fn)]++
		return nat(e, fn, args)
	}
	if fn.Blocks == nil {
		e.unsupported("external function without model: " + fn.String())
	}
	if e.depth >= e.Cfg.MaxDepth {
		panic(pathEnd{"limit", "call depth " + fn.String()})
	}
	fi := e.info(fn)
	if !fi.seen {
		fi.seen = true
		e.St.Funcs[e.fnName(fn)] = fi.size
	}
	fr := &frame{fn: fn, info: fi, regs: make([]Value, fi.n), deferOf: deferOf, caller: e.curFrame}
	if len(args) != len(fn.Params) {
		panic(fmt.Sprintf("vx: arity mismatch calling %s: %d args, %d params", fn, len(args), len(fn.Params)))
	}
	copy(fr.regs, args)
	copy(fr.regs[len(fn.Params):], bind)
	e.depth++
	saved := e.curFrame
	e.curFrame = fr
	defer func() { e.depth--; e.curFrame = saved }()
	return e.runFrame(fr)
}

func (e *Exec) runFrame(fr *frame) Value {
	blk := fr.fn.Blocks[0]
	var prev *ssa.BasicBlock
	for {
		ret, pan := e.execFrom(fr, blk, prev)
		if pan == nil {
			return ret
		}
		// unwinding: run deferred calls with the panic pending
		fr.panic = pan
		for len(fr.defers) > 0 {
			if p2 := e.runOneDefer(fr); p2 != nil {
				fr.panic = p2 // a new panic replaces the old one
			}
		}
		if fr.panic != nil {
			panic(fr.panic)
		}
		// recovered
		if fr.fn.Recover != nil {
			blk, prev = fr.fn.Recover, nil
			continue
		}
		return e.zeroResults(fr.fn)
	}
}

func (e *Exec) zeroResults(fn *ssa.Function) Value {
	res := fn.Signature.Results()
	switch res.Len() {
	case 0:
		return nil
	case 1:
		return e.zero(res.At(0).Type())
	}
	return e.zero(res)
}

func (e *Exec) runOneDefer(fr *frame) (pan *goPanic) {
	d := fr.defers[len(fr.defers)-1]
	fr.defers = fr.defers[:len(fr.defers)-1]
	defer func() {
		if r := recover(); r != nil {
			if gp, ok := r.(*goPanic); ok {
				pan = gp
				return
			}
			panic(r)
		}
	}()
	e.invoke(d.fn, d.args, d.call, fr)
	return nil
}

// execFrom runs blocks until return; an interpreted panic is caught and returned.
func (e *Exec) execFrom(fr *frame, blk, prev *ssa.BasicBlock) (ret Value, pan *goPanic) {
	defer func() {
		if r := recover(); r != nil {
			if gp, ok := r.(*goPanic); ok {
				pan = gp
				return
			}
			panic(r)
		}
	}()
	for {
		if prev != nil && blk.Index <= prev.Index { // back edge
			if fr.iter == nil {
				fr.iter = map[*ssa.BasicBlock]int{}
			}
			fr.iter[blk]++
			if fr.iter[blk] > e.Cfg.MaxIter {
				panic(pathEnd{"limit", fmt.Sprintf("unwinding bound %d exceeded in %s block %d", e.Cfg.MaxIter, fr.fn, blk.Index)})
			}
		}
		next, r, done := e.execBlock(fr, blk, prev)
		if done {
			return r, nil
		}
		prev, blk = blk, next
	}
}

func (e *Exec) execBlock(fr *frame, blk, prev *ssa.BasicBlock) (next *ssa.BasicBlock, ret Value, done bool) {
	instrs := blk.Instrs
	i := 0
	// phis evaluate simultaneously
	if prev != nil {
		pi := -1
		for k, p := range blk.Preds {
			if p == prev {
				pi = k
				break
			}
		}
		var vals []Value
		for i < len(instrs) {
			phi, ok := instrs[i].(*ssa.Phi)
			if !ok {
				break
			}
			vals = append(vals, e.get(fr, phi.Edges[pi]))
			i++
		}
		for k := 0; k < i; k++ {
			e.set(fr, instrs[k].(*ssa.Phi), vals[k])
		}
	}
	fr.pcBlock = blk.Index
	for ; i < len(instrs); i++ {
		fr.pcIdx = i
		e.steps++
		if e.steps > e.Cfg.MaxSteps {
			panic(pathEnd{"limit", fmt.Sprintf("step bound %d exceeded", e.Cfg.MaxSteps)})
		}
		switch in := instrs[i].(type) {
		case *ssa.Jump:
			return blk.Succs[0], nil, false
		case *ssa.If:
			c := e.get(fr, in.Cond).(Bool)
			var side bool
			if c.T == nil {
				side = c.C
			} else {
				side = e.branch(c.T)
			}
			if side {
				return blk.Succs[0], nil, false
			}
			return blk.Succs[1], nil, false
		case *ssa.Return:
			var r Value
			switch len(in.Results) {
			case 0:
			case 1:
				r = e.get(fr, in.Results[0])
			default:
				tp := make(Tuple, len(in.Results))
				for k, x := range in.Results {
					tp[k] = e.get(fr, x)
				}
				r = tp
			}
			return nil, r, true
		case *ssa.Panic:
			v := e.get(fr, in.X)
			panic(&goPanic{val: v})
		case *ssa.RunDefers:
			for len(fr.defers) > 0 {
				d := fr.defers[len(fr.defers)-1]
				fr.defers = fr.defers[:len(fr.defers)-1]
				e.invoke(d.fn, d.args, d.call, fr)
			}
		default:
			if fr.isInit {
				e.execInitInstr(fr, instrs[i])
			} else {
				e.execInstr(fr, instrs[i])
			}
		}
	}
	panic("vx: block without terminator")
}

func (e *Exec) callArgs(fr *frame, c *ssa.CallCommon) (fn Value, args []Value) {
	if c.IsInvoke() {
		recv := e.get(fr, c.Value)
		iv, ok := recv.(Iface)
		if !ok {
			e.unsupported(fmt.Sprintf("invoke on %T", recv))
		}
		if iv.T == nil {
			e.goPanicRuntime("invalid memory address or nil pointer dereference")
		}
		if at, ok := iv.V.(AbsTok); ok && e.pr != nil {
			// the task body is the environment: Start() on a token whose identity is state dependent
			if at.Occ != e.pr.occ[at.Reg] {
				e.unsupported("token register " + at.Reg + " used after it was overwritten")
			}
			if c.Method.Name() != "Start" {
				e.unsupported("method " + c.Method.Name() + " on an abstract token")
			}
			reg := ValX{Kind: "reg", Reg: at.Reg}
			return Closure{Nat: &Native{Name: "task.Start", F: func(e *Exec, args []Value) Value { e.startEvent(reg); return nil }}}, nil
		}
		m := e.lookupMethod(iv.T, c.Method)
		args = make([]Value, 0, len(c.Args)+1)
		args = append(args, iv.V)
		for _, a := range c.Args {
			args = append(args, e.get(fr, a))
		}
		return Closure{Fn: m}, args
	}
	fn = e.get(fr, c.Value)
	args = make([]Value, len(c.Args))
	for i, a := range c.Args {
		args[i] = e.get(fr, a)
	}
	return fn, args
}

func (e *Exec) lookupMethod(t types.Type, m *types.Func) *ssa.Function {
	sel := e.P.Prog.MethodSets.MethodSet(t).Lookup(m.Pkg(), m.Name())
	if sel == nil {
		e.unsupported("method " + m.Name() + " not found on " + t.String())
	}
	fn := e.P.Prog.MethodValue(sel)
	if fn == nil {
		e.unsupported("no method value for " + m.Name() + " on " + t.String())
	}
	return fn
}

func (e *Exec) invoke(fn Value, args []Value, call *ssa.CallCommon, deferOf *frame) Value {
	switch f := fn.(type) {
	case Closure:
		if f.Nat != nil {
			return f.Nat.F(e, args)
		}
		if f.Fn == nil {
			e.goPanicRuntime("invalid memory address or nil pointer dereference")
		}
		return e.callFunction(f.Fn, args, f.Bind, deferOf)
	case BuiltinV:
		return e.callBuiltin(f.B, args, call, deferOf)
	}
	e.unsupported(fmt.Sprintf("call of %T", fn))
	return nil
}

// ---------------------------------------------------------------- instructions

func (e *Exec) execInstr(fr *frame, instr ssa.Instruction) {
	switch in := instr.(type) {
	case *ssa.Alloc:
		t := in.Type().Underlying().(*types.Pointer).Elem()
		o := e.newObj(e.zero(t), in.Parent().Name()+":"+in.Name())
		if _, ok := o.V.(*Array); ok {
			o.ownsArr = true
		}
		e.set(fr, in, Ptr{Obj: o})
	case *ssa.BinOp:
		e.set(fr, in, e.binop(in.Op, in.X.Type(), e.get(fr, in.X), e.get(fr, in.Y), in.Y.Type()))
	case *ssa.UnOp:
		e.set(fr, in, e.unop(fr, in))
	case *ssa.Call:
		fn, args := e.callArgs(fr, &in.Call)
		if e.Cfg.Trace {
			fmt.Printf("%*scall %s\n", e.depth*2, "", e.show(fn))
		}
		r := e.invoke(fn, args, &in.Call, nil)
		e.set(fr, in, r)
	case *ssa.Defer:
		fn, args := e.callArgs(fr, &in.Call)
		fr.defers = append(fr.defers, deferRec{fn, args, &in.Call})
	case *ssa.Go:
		e.goStmt(fr, in)
	case *ssa.ChangeInterface:
		e.set(fr, in, e.get(fr, in.X))
	case *ssa.ChangeType:
		e.set(fr, in, e.get(fr, in.X))
	case *ssa.Convert:
		e.set(fr, in, e.convert(e.get(fr, in.X), in.X.Type(), in.Type()))
	case *ssa.MultiConvert:
		e.set(fr, in, e.convert(e.get(fr, in.X), in.X.Type(), in.Type()))
	case *ssa.SliceToArrayPointer:
		s := e.get(fr, in.X).(Slice)
		n := int(in.Type().Underlying().(*types.Pointer).Elem().Underlying().(*types.Array).Len())
		if s.Len < n {
			e.goPanicRuntime("cannot convert slice to array pointer: length too short")
		}
		if s.A.Obj == nil {
			e.set(fr, in, Ptr{})
		} else if s.Off == 0 && len(e.loadArr(s.A).E) == n {
			e.set(fr, in, Ptr{Obj: s.A.Obj, Path: s.A.Path})
		} else {
			e.unsupported("slice to array pointer with offset")
		}
	case *ssa.Extract:
		e.set(fr, in, e.get(fr, in.Tuple).(Tuple)[in.Index])
	case *ssa.Field:
		s, ok := e.get(fr, in.X).(*Struct)
		if !ok {
			e.unsupported(fmt.Sprintf("Field of %T", e.get(fr, in.X)))
		}
		e.set(fr, in, s.F[in.Field])
	case *ssa.FieldAddr:
		p, ok := e.get(fr, in.X).(Ptr)
		if !ok {
			e.unsupported(fmt.Sprintf("FieldAddr of %T", e.get(fr, in.X)))
		}
		if p.Obj == nil {
			e.goPanicRuntime("invalid memory address or nil pointer dereference")
		}
		e.set(fr, in, Ptr{Obj: p.Obj, Path: extendPath(p.Path, Step{N: in.Field})})
	case *ssa.Index:
		e.set(fr, in, e.indexValue(e.get(fr, in.X), e.get(fr, in.Index), in.Index.Type()))
	case *ssa.IndexAddr:
		e.set(fr, in, e.indexAddr(e.get(fr, in.X), e.get(fr, in.Index), in.Index.Type()))
	case *ssa.Lookup:
		e.set(fr, in, e.lookup(in, e.get(fr, in.X), e.get(fr, in.Index)))
	case *ssa.MakeChan:
		e.objSeq++
		ek := "int"
		switch u := in.Type().Underlying().(*types.Chan).Elem().Underlying().(type) {
		case *types.Interface:
			ek = "tok"
		case *types.Struct:
			if u.NumFields() == 0 {
				ek = "unit"
			}
		}
		e.set(fr, in, ChanV{&ChanObj{ID: e.objSeq, Cap: e.concInt(e.get(fr, in.Size)), Epoch: e.epoch, ElemKind: ek, Name: in.Parent().Name() + ":" + in.Name()}})
	case *ssa.MakeClosure:
		b := make([]Value, len(in.Bindings))
		for i, x := range in.Bindings {
			b[i] = e.get(fr, x)
		}
		e.set(fr, in, Closure{Fn: in.Fn.(*ssa.Function), Bind: b})
	case *ssa.MakeInterface:
		e.set(fr, in, Iface{T: in.X.Type(), V: e.get(fr, in.X)})
	case *ssa.MakeMap:
		e.objSeq++
		mo := &MapObj{ID: e.objSeq, Epoch: e.epoch}
		if kw, vw, ok := termMapType(in.Type()); ok {
			mo.TM = &termMap{kw: kw, vw: vw}
		}
		if e.initing > 0 {
			e.initMaps = append(e.initMaps, mo)
		}
		e.set(fr, in, MapV{mo})
	case *ssa.MakeSlice:
		n := e.concInt(e.get(fr, in.Len))
		c := e.concInt(e.get(fr, in.Cap))
		if n < 0 || c < n {
			e.goPanicRuntime("makeslice: len out of range")
		}
		if c > 1<<24 {
			e.unsupported("makeslice: huge capacity")
		}
		et := in.Type().Underlying().(*types.Slice).Elem()
		o := e.newArrObj(c, e.zero(et), in.Parent().Name()+":"+in.Name())
		e.set(fr, in, Slice{A: ArrRef{Obj: o}, Len: n, Cap: c})
	case *ssa.MapUpdate:
		e.mapUpdate(e.get(fr, in.Map), e.get(fr, in.Key), e.get(fr, in.Value))
	case *ssa.Next:
		e.set(fr, in, e.next(in, e.get(fr, in.Iter)))
	case *ssa.Range:
		e.set(fr, in, e.rangeIter(e.get(fr, in.X)))
	case *ssa.Select:
		if e.pr != nil {
			e.set(fr, in, e.procSelect(fr, in))
		} else {
			e.set(fr, in, e.selectStmt(fr, in))
		}
	case *ssa.Send:
		if e.pr != nil {
			e.procSend(e.get(fr, in.Chan), e.get(fr, in.X))
		} else {
			e.chanSend(e.get(fr, in.Chan), e.get(fr, in.X))
		}
	case *ssa.Slice:
		e.set(fr, in, e.sliceOp(fr, in))
	case *ssa.Store:
		p, ok := e.get(fr, in.Addr).(Ptr)
		if !ok {
			e.unsupported(fmt.Sprintf("Store to %T", e.get(fr, in.Addr)))
		}
		e.store(p, e.get(fr, in.Val))
	case *ssa.TypeAssert:
		e.set(fr, in, e.typeAssert(in, e.get(fr, in.X)))
	case *ssa.DebugRef:
	default:
		e.unsupported(fmt.Sprintf("instruction %T", instr))
	}
}

func (e *Exec) unop(fr *frame, in *ssa.UnOp) Value {
	x := e.get(fr, in.X)
	switch in.Op {
	case token.MUL: // load
		p, ok := x.(Ptr)
		if !ok {
			e.unsupported(fmt.Sprintf("load through %T", x))
		}
		return e.load(p)
	case token.NOT:
		b := x.(Bool)
		if b.T == nil {
			return Bool{C: !b.C}
		}
		return e.fromBoolTerm(e.TB.Not(b.T))
	case token.SUB:
		switch v := x.(type) {
		case Int:
			if v.T == nil {
				return mkInt(v.W, -v.C)
			}
			return e.fromTerm(e.TB.Neg(v.T))
		case Float:
			return Float{C: -v.C, Opaque: v.Opaque}
		}
	case token.XOR:
		v := x.(Int)
		if v.T == nil {
			return mkInt(v.W, ^v.C)
		}
		return e.fromTerm(e.TB.BNot(v.T))
	case token.ARROW:
		if e.pr != nil {
			return e.procRecv(x, in.CommaOk, in.Type(), in.X.Type().Underlying().(*types.Chan).Elem())
		}
		return e.chanRecv(x, in.CommaOk, in.Type())
	}
	e.unsupported("unop " + in.Op.String())
	return nil
}

// inBounds forks on idx in [0,n) for a symbolic idx; panics (interpreted) when out of range.
// Returns the index as a 64-bit term (nil when concrete).
func (e *Exec) inBounds(idx Int, signed bool, n int) *term.Term {
	if idx.T == nil {
		v := int64(idx.C)
		if signed {
			v = int64(sxt(idx.C, idx.W))
		}
		if v < 0 || v >= int64(n) || (!signed && idx.C >= uint64(n)) {
			e.goPanicRuntime(fmt.Sprintf("index out of range [%d] with length %d", v, n))
		}
		return nil
	}
	t := e.idx64(idx, signed)
	ok := e.TB.Ult(t, e.TB.Const(64, uint64(n)))
	if !e.branch(ok) {
		e.goPanicRuntime(fmt.Sprintf("index out of range [symbolic] with length %d", n))
	}
	return t
}

func (e *Exec) idx64(idx Int, signed bool) *term.Term {
	t := e.intTerm(idx)
	if t.W < 64 {
		if signed {
			return e.TB.SExt(t, 64)
		}
		return e.TB.ZExt(t, 64)
	}
	return t
}

func isSigned(t types.Type) bool {
	_, s, _ := intWidth(t)
	return s
}

func (e *Exec) indexValue(x, idxv Value, it types.Type) Value {
	idx := idxv.(Int)
	sg := isSigned(it)
	switch v := x.(type) {
	case Str:
		t := e.inBounds(idx, sg, v.Len)
		bs := e.strBytes(v)
		if t == nil {
			return bs[idx.C]
		}
		return e.mergeByIndex(bs, t)
	case *Array:
		t := e.inBounds(idx, sg, len(v.E))
		if t == nil {
			return v.E[idx.C]
		}
		return e.mergeByIndex(v.E, t)
	}
	e.unsupported(fmt.Sprintf("Index of %T", x))
	return nil
}

func (e *Exec) indexAddr(x, idxv Value, it types.Type) Value {
	idx := idxv.(Int)
	sg := isSigned(it)
	switch v := x.(type) {
	case Slice:
		t := e.inBounds(idx, sg, v.Len)
		if t == nil {
			return e.elemPtr(v.A, v.Off+int(idx.C))
		}
		return e.elemPtrSym(v.A, v.Off, t)
	case Ptr: // pointer to array
		if v.Obj == nil {
			e.goPanicRuntime("invalid memory address or nil pointer dereference")
		}
		arr, ok := e.getAt(v.Obj.V, v.Path).(*Array)
		if !ok {
			e.unsupported("IndexAddr through pointer to non-array")
		}
		t := e.inBounds(idx, sg, len(arr.E))
		if t == nil {
			return Ptr{Obj: v.Obj, Path: extendPath(v.Path, Step{Index: true, N: int(idx.C)})}
		}
		return Ptr{Obj: v.Obj, Path: extendPath(v.Path, Step{Index: true, T: t})}
	}
	e.unsupported(fmt.Sprintf("IndexAddr of %T", x))
	return nil
}

func (e *Exec) sliceOp(fr *frame, in *ssa.Slice) Value {
	x := e.get(fr, in.X)
	geti := func(v ssa.Value, def int) int {
		if v == nil {
			return def
		}
		return e.concInt(e.get(fr, v))
	}
	switch v := x.(type) {
	case Str:
		lo := geti(in.Low, 0)
		hi := geti(in.High, v.Len)
		if lo < 0 || hi < lo || hi > v.Len {
			e.goPanicRuntime(fmt.Sprintf("slice bounds out of range [%d:%d] with length %d", lo, hi, v.Len))
		}
		if hi == lo {
			return Str{}
		}
		return Str{A: v.A, Off: v.Off + lo, Len: hi - lo}
	case Slice:
		lo := geti(in.Low, 0)
		hi := geti(in.High, v.Len)
		mx := geti(in.Max, v.Cap)
		if lo < 0 || hi < lo || mx < hi || mx > v.Cap {
			e.goPanicRuntime(fmt.Sprintf("slice bounds out of range [%d:%d:%d] with capacity %d", lo, hi, mx, v.Cap))
		}
		if v.A.Obj == nil {
			return Slice{}
		}
		return Slice{A: v.A, Off: v.Off + lo, Len: hi - lo, Cap: mx - lo}
	case Ptr: // *array
		if v.Obj == nil {
			e.goPanicRuntime("invalid memory address or nil pointer dereference")
		}
		arr, ok := e.getAt(v.Obj.V, v.Path).(*Array)
		if !ok {
			e.unsupported("slice of pointer to non-array")
		}
		n := len(arr.E)
		lo := geti(in.Low, 0)
		hi := geti(in.High, n)
		mx := geti(in.Max, n)
		if lo < 0 || hi < lo || mx < hi || mx > n {
			e.goPanicRuntime(fmt.Sprintf("slice bounds out of range [%d:%d:%d] with capacity %d", lo, hi, mx, n))
		}
		return Slice{A: ArrRef{Obj: v.Obj, Path: v.Path}, Off: lo, Len: hi - lo, Cap: mx - lo}
	}
	e.unsupported(fmt.Sprintf("Slice of %T", x))
	return nil
}

func (e *Exec) typeAssert(in *ssa.TypeAssert, x Value) Value {
	iv, ok := x.(Iface)
	if !ok {
		e.unsupported(fmt.Sprintf("TypeAssert on %T", x))
	}
	okv := false
	var res Value
	if iv.T != nil {
		if types.IsInterface(in.AssertedType) {
			it := in.AssertedType.Underlying().(*types.Interface)
			if e.implements(iv.T, it) {
				okv = true
				res = iv
			}
		} else if types.Identical(iv.T, in.AssertedType) {
			okv = true
			res = iv.V
		}
	}
	if in.CommaOk {
		if !okv {
			res = e.zero(in.AssertedType)
		}
		return Tuple{res, Bool{C: okv}}
	}
	if !okv {
		if iv.T == nil {
			e.goPanicRuntime("interface conversion: interface is nil, not " + in.AssertedType.String())
		}
		e.goPanicRuntime("interface conversion: " + iv.T.String() + " is not " + in.AssertedType.String())
	}
	return res
}

func (e *Exec) implements(t types.Type, it *types.Interface) bool {
	if it.NumMethods() == 0 {
		return true
	}
	ms := e.P.Prog.MethodSets.MethodSet(t)
	for i := 0; i < it.NumMethods(); i++ {
		m := it.Method(i)
		sel := ms.Lookup(m.Pkg(), m.Name())
		if sel == nil {
			return false
		}
		if !types.Identical(sel.Type(), m.Type()) {
			return false
		}
	}
	return true
}

func (e *Exec) goStmt(fr *frame, in *ssa.Go) {
	if e.collectGo {
		fn, args := e.callArgs(fr, &in.Call)
		name := "go"
		if c, ok := fn.(Closure); ok && c.Fn != nil {
			name = c.Fn.Name()
		}
		name = fmt.Sprintf("%s#%d", name, len(e.procs))
		e.procs = append(e.procs, procSpec{name: name, fn: fn, args: args})
		return
	}
	e.unsupported("go statement (Engine 1 is sequential)")
}

func (e *Exec) fnName(fn *ssa.Function) string {
	if n, ok := e.fnNames[fn]; ok {
		return n
	}
	n := fn.String()
	e.fnNames[fn] = n
	return n
}
