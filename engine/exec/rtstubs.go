package exec

import (
	"go/types"

	"golang.org/x/tools/go/ssa"
)

// Stubs for runtime caller information and encoding/json's Encoder (contracts, DESIGN 2.2).

// file names a program counter may resolve to: absolute, without directory (go run of a single file under -trimpath),
// empty (unknown pc), one directory (package main of module "example" under -trimpath), names that need quoting
var frameFiles = []string{"/a/b/c.go", "c.go", "", "/x.go", "example/main.go", "/src/my dir/gen=a.go", "/p/q\"r.go"}
var frameLines = []int{42, 0, 1234567, 7, 1, 6, 99}

func (e *Exec) setField(sv *Struct, st *types.Struct, name string, v Value) *Struct {
	out := &Struct{F: append([]Value{}, sv.F...)}
	for i := 0; i < st.NumFields(); i++ {
		if st.Field(i).Name() == name {
			out.F[i] = v
			return out
		}
	}
	e.unsupported("stub: no field " + name)
	return nil
}

func (e *Exec) getField(sv *Struct, st *types.Struct, name string) Value {
	for i := 0; i < st.NumFields(); i++ {
		if st.Field(i).Name() == name {
			return sv.F[i]
		}
	}
	e.unsupported("stub: no field " + name)
	return nil
}

func init() {
	reg("runtime.Callers", func(e *Exec, fn *ssa.Function, a []Value) Value {
		s := a[1].(Slice)
		if s.Len == 0 {
			return mkInt(64, 0)
		}
		e.store(e.elemPtr(s.A, s.Off), mkInt(64, 0x4242))
		return mkInt(64, 1)
	})
	reg("runtime.CallersFrames", func(e *Exec, fn *ssa.Function, a []Value) Value {
		rt := fn.Signature.Results().At(0).Type() // *runtime.Frames
		o := e.newObj(e.zero(deref(rt)), "runtime.Frames")
		return Ptr{Obj: o}
	})
	reg("(*runtime.Frames).Next", func(e *Exec, fn *ssa.Function, a []Value) Value {
		ft := fn.Signature.Results().At(0).Type()
		st := ft.Underlying().(*types.Struct)
		fv := e.zero(ft).(*Struct)
		// every pc the Callers stub hands out is the same one, so within a path it resolves to the same frame
		if e.framePick < 0 {
			e.framePick = e.pick(len(frameFiles))
			e.inputs = append(e.inputs, InputVal{Call: "stub:frame", Vals: []uint64{uint64(e.framePick)}})
		}
		k := e.framePick
		fv = e.setField(fv, st, "File", e.strFromGo(frameFiles[k]))
		fv = e.setField(fv, st, "Line", mkInt(64, uint64(frameLines[k])))
		fv = e.setField(fv, st, "PC", mkInt(64, 0x4242))
		return Tuple{fv, Bool{C: false}}
	})
	reg("runtime.Stack", func(e *Exec, fn *ssa.Function, a []Value) Value {
		s := a[0].(Slice)
		txt := "goroutine 1 [running]:\nmain.f()\n\t/x/y.go:1 +0x1\n"
		n := len(txt)
		if s.Len < n {
			n = s.Len
		}
		for i := 0; i < n; i++ {
			e.store(e.elemPtr(s.A, s.Off+i), mkInt(8, uint64(txt[i])))
		}
		return mkInt(64, uint64(n))
	})
	// (*json.Encoder).Encode: contract = either an error (plain or wrapping, arbitrary short message)
	// or one of a fixed set of valid JSON texts followed by '\n' written to the encoder's writer.
	reg("(*encoding/json.Encoder).Encode", func(e *Exec, fn *ssa.Function, a []Value) Value {
		jpk := e.P.Prog.ImportedPackage("encoding/json")
		mkMarshalerErr := func(errv Value) Value {
			met := jpk.Type("MarshalerError").Type()
			mst := met.Underlying().(*types.Struct)
			mv := e.setField(e.zero(met).(*Struct), mst, "Err", errv)
			o := e.newObj(mv, "json.MarshalerError")
			return Iface{T: types.NewPointer(met), V: Ptr{Obj: o}}
		}
		writeOut := func(sl Slice) {
			encPtr := a[0].(Ptr)
			est := deref(fn.Params[0].Type()).Underlying().(*types.Struct)
			ev := e.load(encPtr).(*Struct)
			w := e.getField(ev, est, "w").(Iface)
			var it types.Type
			for i := 0; i < est.NumFields(); i++ {
				if est.Field(i).Name() == "w" {
					it = est.Field(i).Type()
				}
			}
			iface := it.Underlying().(*types.Interface)
			var wm *types.Func
			for i := 0; i < iface.NumMethods(); i++ {
				if iface.Method(i).Name() == "Write" {
					wm = iface.Method(i)
				}
			}
			e.callFunction(e.lookupMethod(w.T, wm), []Value{w.V, sl}, nil, nil)
		}
		// a value that implements json.Marshaler: run its MarshalJSON (real code) and apply the
		// Encoder's documented contract to the result
		if iv, ok := a[1].(Iface); ok && iv.T != nil {
			mi := jpk.Type("Marshaler").Type().Underlying().(*types.Interface)
			if e.implements(iv.T, mi) {
				res := e.callFunction(e.lookupMethod(iv.T, mi.Method(0)), []Value{iv.V}, nil, nil).(Tuple)
				if ev, ok := res[1].(Iface); ok && ev.T != nil {
					e.St.Reach["json.Encode: MarshalJSON failed"]++
					return mkMarshalerErr(ev)
				}
				out := res[0].(Slice)
				valid := e.callFunction(jpk.Func("Valid"), []Value{out}, nil, nil).(Bool)
				isValid := valid.C
				if valid.T != nil {
					isValid = e.branch(valid.T)
				}
				if !isValid {
					e.St.Reach["json.Encode: MarshalJSON returned invalid JSON"]++
					msg := e.symString("stub:json.Encode.err", 2)
					errv := e.callFunction(e.P.Prog.ImportedPackage("errors").Func("New"), []Value{msg}, nil, nil)
					return mkMarshalerErr(errv)
				}
				el := append(append([]Value{}, e.sliceElems(out)...), mkInt(8, '\n'))
				o := e.newObj(&Array{E: el}, "json.Encode")
				o.ownsArr = true
				writeOut(Slice{A: ArrRef{Obj: o}, Len: len(el), Cap: len(el)})
				e.St.Reach["json.Encode: MarshalJSON succeeded"]++
				return Iface{}
			}
		}
		texts := []string{"1.5", "\"x\\u00e9\"", "{\"a\":[1,2,{\"b\":null}]}", "null", "-0.25e+10", "[]", "true"}
		k := e.pick(len(texts) + 2)
		e.inputs = append(e.inputs, InputVal{Call: "stub:json.Encode", Vals: []uint64{uint64(k)}})
		if k < len(texts) {
			encPtr := a[0].(Ptr)
			est := deref(fn.Params[0].Type()).Underlying().(*types.Struct)
			ev := e.load(encPtr).(*Struct)
			w := e.getField(ev, est, "w").(Iface)
			data := e.strFromGo(texts[k] + "\n")
			bs := e.strBytes(data)
			o := e.newObj(&Array{E: append([]Value{}, bs...)}, "json.Encode")
			o.ownsArr = true
			sl := Slice{A: ArrRef{Obj: o}, Len: len(bs), Cap: len(bs)}
			// io.Writer.Write
			var wm *types.Func
			it := est.Field(0).Type()
			for i := 0; i < est.NumFields(); i++ {
				if est.Field(i).Name() == "w" {
					it = est.Field(i).Type()
				}
			}
			iface := it.Underlying().(*types.Interface)
			for i := 0; i < iface.NumMethods(); i++ {
				if iface.Method(i).Name() == "Write" {
					wm = iface.Method(i)
				}
			}
			m := e.lookupMethod(w.T, wm)
			e.callFunction(m, []Value{w.V, sl}, nil, nil)
			e.St.Reach["json.Encode: success"]++
			return Iface{}
		}
		msg := e.symString("stub:json.Encode.err", 2)
		errv := e.callFunction(e.P.Prog.ImportedPackage("errors").Func("New"), []Value{msg}, nil, nil)
		if k == len(texts) {
			e.St.Reach["json.Encode: plain error"]++
			return errv
		}
		// wrapping error: *json.MarshalerError{Err: errv}
		jp := e.P.Prog.ImportedPackage("encoding/json")
		met := jp.Type("MarshalerError").Type()
		mst := met.Underlying().(*types.Struct)
		mv := e.setField(e.zero(met).(*Struct), mst, "Err", errv)
		o := e.newObj(mv, "json.MarshalerError")
		e.St.Reach["json.Encode: wrapping error"]++
		return Iface{T: types.NewPointer(met), V: Ptr{Obj: o}}
	})
}

// errors.Is: the real function asks internal/reflectlite whether the target is comparable;
// that one question is answered from go/types, the chain walk (`errors.is`, with the
// `Is(error) bool` and `Unwrap` methods of the error values) runs from SSA.
func init() {
	reg("errors.Is", func(e *Exec, fn *ssa.Function, a []Value) Value {
		er := a[0].(Iface)
		tg := a[1].(Iface)
		if er.T == nil || tg.T == nil {
			return Bool{C: er.T == nil && tg.T == nil}
		}
		is := fn.Pkg.Func("is")
		if is == nil {
			e.unsupported("errors.is not found")
		}
		return e.callFunction(is, []Value{er, tg, Bool{C: types.Comparable(tg.T)}}, nil, nil)
	})
}
