package exec

import (
	"fmt"
	"go/token"
	"go/types"
	"strings"

	"golang.org/x/tools/go/ssa"
	"vx/smt"
	"vx/term"
)

var lssTok = token.LSS
var addTok = token.ADD

type natFn func(e *Exec, fn *ssa.Function, args []Value) Value

var intrinsics = map[string]natFn{}

func reg(name string, f natFn) { intrinsics[name] = f }

func (e *Exec) intrinsic(fn *ssa.Function) natFn {
	if f, ok := e.intrCache[fn]; ok {
		return f
	}
	f := e.intrinsic0(fn)
	e.intrCache[fn] = f
	return f
}

func (e *Exec) intrinsic0(fn *ssa.Function) natFn {
	name := fn.String()
	if hf, ok := e.Cfg.FuncStubs[name]; ok && fn.Pkg != nil {
		// a function of the code under test replaced by a harness function of the same signature (stated stub)
		target := fn.Pkg.Func(hf)
		if target == nil {
			for _, p := range e.P.Pkgs {
				if f := p.Func(hf); f != nil && underTest(p) {
					target = f
				}
			}
		}
		if target == nil {
			e.unsupported("func_stubs: harness function " + hf + " not found")
		}
		return func(e *Exec, _ *ssa.Function, args []Value) Value {
			return e.callFunction(target, args, nil, nil)
		}
	}
	if f, ok := intrinsics[name]; ok {
		return f
	}
	if fn.Pkg != nil && strings.HasPrefix(fn.Name(), "vx") && fn.Signature.Recv() == nil {
		if f, ok := vxAPI[fn.Name()]; ok {
			return f
		}
		if fn.Blocks == nil {
			e.unsupported("unknown vx function " + fn.Name())
		}
	}
	// generic instantiations: match on origin name
	if o := fn.Origin(); o != nil {
		if f, ok := intrinsics[o.String()]; ok {
			return f
		}
	}
	return nil
}

// ---------------------------------------------------------------- harness API

var vxAPI = map[string]natFn{}

func init() {
	vxAPI["vxByte"] = func(e *Exec, fn *ssa.Function, args []Value) Value {
		t := e.freshVar("b", 8)
		e.inputs = append(e.inputs, InputVal{Call: "vxByte", terms: []*term.Term{t}})
		return Int{W: 8, T: t}
	}
	vxAPI["vxBool"] = func(e *Exec, fn *ssa.Function, args []Value) Value {
		t := e.freshVar("p", 0)
		e.inputs = append(e.inputs, InputVal{Call: "vxBool", terms: []*term.Term{t}})
		return Bool{T: t}
	}
	mkU := func(name string, w int) {
		vxAPI[name] = func(e *Exec, fn *ssa.Function, args []Value) Value {
			t := e.freshVar("u", w)
			e.inputs = append(e.inputs, InputVal{Call: name, terms: []*term.Term{t}})
			return Int{W: w, T: t}
		}
	}
	mkU("vxU16", 16)
	mkU("vxU32", 32)
	mkU("vxU64", 64)
	// vxInt(lo, hi int) int: symbolic int constrained to [lo,hi]
	vxAPI["vxInt"] = func(e *Exec, fn *ssa.Function, args []Value) Value {
		lo, hi := e.concInt(args[0]), e.concInt(args[1])
		if lo == hi {
			e.inputs = append(e.inputs, InputVal{Call: "vxInt", Vals: []uint64{uint64(lo)}})
			return mkInt(64, uint64(lo))
		}
		t := e.freshVar("i", 64)
		e.inputs = append(e.inputs, InputVal{Call: "vxInt", terms: []*term.Term{t}})
		c := e.TB.And(e.TB.Sle(e.TB.Const(64, uint64(lo)), t), e.TB.Sle(t, e.TB.Const(64, uint64(hi))))
		e.addAssumption(c)
		return Int{W: 64, T: t}
	}
	// vxPick(n int) int: concrete choice (forks)
	vxAPI["vxPick"] = func(e *Exec, fn *ssa.Function, args []Value) Value {
		n := e.concInt(args[0])
		if e.pr != nil {
			k := e.procEvent(&Event{Kind: "choice", N: n, Site: e.siteName("pick")}, n)
			return mkInt(64, uint64(k))
		}
		k := e.pick(n)
		e.inputs = append(e.inputs, InputVal{Call: "vxPick", Vals: []uint64{uint64(k)}})
		return mkInt(64, uint64(k))
	}
	// vxString(maxLen int) string: any byte string of length 0..maxLen (forks on length)
	vxAPI["vxString"] = func(e *Exec, fn *ssa.Function, args []Value) Value {
		mx := e.concInt(args[0])
		n := e.pick(mx + 1)
		return e.symString("vxString", n)
	}
	vxAPI["vxStringN"] = func(e *Exec, fn *ssa.Function, args []Value) Value {
		return e.symString("vxStringN", e.concInt(args[0]))
	}
	vxAPI["vxBytes"] = func(e *Exec, fn *ssa.Function, args []Value) Value {
		mx := e.concInt(args[0])
		n := e.pick(mx + 1)
		s := e.symString("vxBytes", n)
		if n == 0 {
			o := e.newArrObj(0, Int{W: 8}, "vxBytes")
			return Slice{A: ArrRef{Obj: o}}
		}
		s.A.Obj.ownsArr = true
		return Slice{A: s.A, Len: n, Cap: n}
	}
	vxAPI["vxAssume"] = func(e *Exec, fn *ssa.Function, args []Value) Value {
		b := args[0].(Bool)
		if b.T == nil {
			if !b.C {
				panic(pathEnd{"assume", ""})
			}
			return nil
		}
		e.addAssumption(b.T)
		return nil
	}
	vxAPI["vxAssert"] = func(e *Exec, fn *ssa.Function, args []Value) Value {
		b := args[0].(Bool)
		msg := "assertion failed"
		if len(args) > 1 {
			if s, ok := args[1].(Str); ok {
				if gs, ok := e.goString(s); ok {
					msg = gs
				}
			}
		}
		e.assert(b, msg)
		return nil
	}
	vxAPI["vxFail"] = func(e *Exec, fn *ssa.Function, args []Value) Value {
		msg := "vxFail"
		if s, ok := args[0].(Str); ok {
			if gs, ok := e.goString(s); ok {
				msg = gs
			}
		}
		e.assert(Bool{C: false}, msg)
		return nil
	}
	vxAPI["vxReach"] = func(e *Exec, fn *ssa.Function, args []Value) Value {
		if s, ok := e.goString(args[0].(Str)); ok {
			e.St.Reach[s]++
		}
		return nil
	}
	vxAPI["vxTag"] = func(e *Exec, fn *ssa.Function, args []Value) Value {
		if s, ok := e.goString(args[0].(Str)); ok {
			e.tags = append(e.tags, s)
		}
		return nil
	}
	vxAPI["vxParam"] = func(e *Exec, fn *ssa.Function, args []Value) Value {
		s, _ := e.goString(args[0].(Str))
		v, ok := e.Cfg.Params[s]
		if !ok {
			e.unsupported("vxParam: no value for " + s)
		}
		return mkInt(64, uint64(v))
	}
	vxAPI["vxPrint"] = func(e *Exec, fn *ssa.Function, args []Value) Value {
		if e.Cfg.Trace || e.Cfg.Params["print"] == 1 {
			var parts []string
			for _, b := range bytesOf(e, args[0]) {
				iv := b.(Int)
				if iv.T != nil {
					parts = append(parts, "?")
				} else {
					parts = append(parts, string(rune(iv.C)))
				}
			}
			fmt.Println("vxPrint:", strings.Join(parts, ""))
		}
		return nil
	}
	vxAPI["vxSymbolic"] = func(e *Exec, fn *ssa.Function, args []Value) Value {
		return Bool{C: true}
	}
	// vxPoolMode(m): 0 fork over pooled objects and New; 1 LIFO reuse; 2 always New
	vxAPI["vxPoolMode"] = func(e *Exec, fn *ssa.Function, args []Value) Value {
		e.poolMode = e.concInt(args[0])
		return nil
	}
	// vxConcrete(x int) int: enumerate the feasible values (forks)
	vxAPI["vxConcrete"] = func(e *Exec, fn *ssa.Function, args []Value) Value {
		return mkInt(64, uint64(e.concInt(args[0])))
	}
	// vxIte(c, a, b int) int without forking
	vxAPI["vxIte"] = func(e *Exec, fn *ssa.Function, args []Value) Value {
		c := args[0].(Bool)
		if c.T == nil {
			if c.C {
				return args[1]
			}
			return args[2]
		}
		return e.mergeGuard(c.T, args[1], args[2])
	}
	vxAPI["vxAnd"] = func(e *Exec, fn *ssa.Function, args []Value) Value {
		return e.fromBoolTerm(e.TB.And(e.boolTerm(args[0].(Bool)), e.boolTerm(args[1].(Bool))))
	}
	vxAPI["vxOr"] = func(e *Exec, fn *ssa.Function, args []Value) Value {
		return e.fromBoolTerm(e.TB.Or(e.boolTerm(args[0].(Bool)), e.boolTerm(args[1].(Bool))))
	}
	// vxExpectPanic(): subsequent uncaught panic is the harness's business (returns nothing)
}

func (e *Exec) symString(call string, n int) Str {
	in := InputVal{Call: call, Len: n}
	if n == 0 {
		in.Vals = []uint64{}
		e.inputs = append(e.inputs, in)
		return Str{}
	}
	el := make([]Value, n)
	for i := 0; i < n; i++ {
		t := e.freshVar("b", 8)
		in.terms = append(in.terms, t)
		el[i] = Int{W: 8, T: t}
	}
	e.inputs = append(e.inputs, in)
	o := e.newObj(&Array{E: el}, call)
	return Str{A: ArrRef{Obj: o}, Len: n}
}

func (e *Exec) addAssumption(c *term.Term) {
	if v, ok := e.known(c); ok {
		if !v {
			panic(pathEnd{"assume", ""})
		}
		return
	}
	if e.model != nil && e.evalTerm(c, e.model) == 1 {
		e.assume(c, true)
		return
	}
	r := e.check(c)
	if r == smt.Unsat {
		panic(pathEnd{"assume", ""})
	}
	e.assume(c, true)
	e.model = nil // re-established lazily
}

func (e *Exec) assert(b Bool, msg string) {
	e.St.Asserts++
	if b.T == nil {
		if b.C {
			e.St.AssertProved++
			return
		}
		e.recordViolation("assert", msg, e.model)
		panic(pathEnd{"violation-end", msg})
	}
	if v, ok := e.known(b.T); ok && v {
		e.St.AssertProved++
		return
	}
	nc := e.TB.Not(b.T)
	if e.model != nil && e.evalTerm(b.T, e.model) == 0 {
		e.recordViolation("assert", msg, e.model)
	} else {
		r := e.check(nc)
		switch r {
		case smt.Unsat:
			e.St.AssertProved++
			e.assume(b.T, true)
			return
		case smt.Sat:
			m, mr := e.solveModel(nc)
			if mr != smt.Sat {
				e.St.Limits["assertion refuted but no model could be produced: "+msg]++
				return
			}
			e.recordViolation("assert", msg, m)
		default:
			e.St.Limits["assertion undecided (solver unknown): "+msg]++
			return
		}
	}
	// continue on the side where the assertion holds, if feasible
	r := e.check(b.T)
	if r != smt.Sat {
		panic(pathEnd{"violation-end", msg})
	}
	e.assume(b.T, true)
	e.model = nil
}

// ---------------------------------------------------------------- stdlib intrinsics

func bytesOf(e *Exec, v Value) []Value {
	switch x := v.(type) {
	case Str:
		return e.strBytes(x)
	case Slice:
		return e.sliceElems(x)
	}
	e.unsupported(fmt.Sprintf("bytes of %T", v))
	return nil
}

// indexByte: first i with s[i]==c, else -1 (forks per position on symbolic data)
func indexByte(e *Exec, s []Value, c Int) Value {
	for i, b := range s {
		bi := b.(Int)
		if bi.T == nil && c.T == nil {
			if bi.C == c.C {
				return mkInt(64, uint64(i))
			}
			continue
		}
		if e.branch(e.TB.Eq(e.intTerm(bi), e.intTerm(c))) {
			return mkInt(64, uint64(i))
		}
	}
	return mkInt(64, ^uint64(0))
}

func indexStr(e *Exec, s, sub []Value) Value {
	n, m := len(s), len(sub)
	if m == 0 {
		return mkInt(64, 0)
	}
	for i := 0; i+m <= n; i++ {
		c := e.bytesEq(s[i:i+m], sub)
		if c.Op == term.OConst {
			if c.Val == 1 {
				return mkInt(64, uint64(i))
			}
			continue
		}
		if e.branch(c) {
			return mkInt(64, uint64(i))
		}
	}
	return mkInt(64, ^uint64(0))
}

func countByte(e *Exec, s []Value, c Int) Value {
	acc := e.TB.Const(64, 0)
	one := e.TB.Const(64, 1)
	zero := e.TB.Const(64, 0)
	for _, b := range s {
		eq := e.TB.Eq(e.intTerm(b.(Int)), e.intTerm(c))
		acc = e.TB.Add(acc, e.TB.Ite(eq, one, zero))
	}
	return e.fromTerm(acc)
}

func init() {
	reg("internal/bytealg.IndexByteString", func(e *Exec, fn *ssa.Function, a []Value) Value {
		return indexByte(e, bytesOf(e, a[0]), a[1].(Int))
	})
	reg("internal/bytealg.IndexByte", func(e *Exec, fn *ssa.Function, a []Value) Value {
		return indexByte(e, bytesOf(e, a[0]), a[1].(Int))
	})
	reg("internal/bytealg.CountString", func(e *Exec, fn *ssa.Function, a []Value) Value {
		return countByte(e, bytesOf(e, a[0]), a[1].(Int))
	})
	reg("internal/bytealg.Count", func(e *Exec, fn *ssa.Function, a []Value) Value {
		return countByte(e, bytesOf(e, a[0]), a[1].(Int))
	})
	reg("internal/bytealg.IndexString", func(e *Exec, fn *ssa.Function, a []Value) Value {
		return indexStr(e, bytesOf(e, a[0]), bytesOf(e, a[1]))
	})
	reg("internal/bytealg.Index", func(e *Exec, fn *ssa.Function, a []Value) Value {
		return indexStr(e, bytesOf(e, a[0]), bytesOf(e, a[1]))
	})
	reg("internal/stringslite.Index", func(e *Exec, fn *ssa.Function, a []Value) Value {
		return indexStr(e, bytesOf(e, a[0]), bytesOf(e, a[1]))
	})
	reg("strings.Index", func(e *Exec, fn *ssa.Function, a []Value) Value {
		return indexStr(e, bytesOf(e, a[0]), bytesOf(e, a[1]))
	})
	reg("bytes.Index", func(e *Exec, fn *ssa.Function, a []Value) Value {
		return indexStr(e, bytesOf(e, a[0]), bytesOf(e, a[1]))
	})
	reg("internal/bytealg.Equal", func(e *Exec, fn *ssa.Function, a []Value) Value {
		x, y := bytesOf(e, a[0]), bytesOf(e, a[1])
		if len(x) != len(y) {
			return Bool{C: false}
		}
		return e.fromBoolTerm(e.bytesEq(x, y))
	})
	reg("internal/bytealg.MakeNoZero", func(e *Exec, fn *ssa.Function, a []Value) Value {
		n := e.concInt(a[0])
		// cap rounded up like the runtime does
		c := int(roundUpSize(uintptr(n), true))
		o := e.newArrObj(c, Int{W: 8}, "MakeNoZero")
		return Slice{A: ArrRef{Obj: o}, Len: n, Cap: c}
	})
	reg("internal/bytealg.Compare", func(e *Exec, fn *ssa.Function, a []Value) Value {
		x, y := bytesOf(e, a[0]), bytesOf(e, a[1])
		n := len(x)
		if len(y) < n {
			n = len(y)
		}
		for i := 0; i < n; i++ {
			xi, yi := e.intTerm(x[i].(Int)), e.intTerm(y[i].(Int))
			if e.branch(e.TB.Eq(xi, yi)) {
				continue
			}
			if e.branch(e.TB.Ult(xi, yi)) {
				return mkInt(64, ^uint64(0))
			}
			return mkInt(64, 1)
		}
		switch {
		case len(x) < len(y):
			return mkInt(64, ^uint64(0))
		case len(x) > len(y):
			return mkInt(64, 1)
		}
		return mkInt(64, 0)
	})
	reg("internal/abi.NoEscape", func(e *Exec, fn *ssa.Function, a []Value) Value { return a[0] })
	reg("internal/abi.Escape", func(e *Exec, fn *ssa.Function, a []Value) Value { return a[0] })
	reg("runtime.KeepAlive", func(e *Exec, fn *ssa.Function, a []Value) Value { return nil })
	reg("internal/race.Enabled", nil)
	delete(intrinsics, "internal/race.Enabled")
	for _, n := range []string{"Acquire", "Release", "ReleaseMerge", "Disable", "Enable", "Read", "Write", "ReadRange", "WriteRange", "Errors"} {
		reg("internal/race."+n, func(e *Exec, fn *ssa.Function, a []Value) Value {
			if fn.Signature.Results().Len() == 1 {
				return mkInt(64, 0)
			}
			return nil
		})
	}
	reg("os.Exit", func(e *Exec, fn *ssa.Function, a []Value) Value {
		panic(pathEnd{"exit", fmt.Sprint(e.concInt(a[0]))})
	})
}

var _ = types.Typ
