package exec

import (
	"go/types"

	"golang.org/x/tools/go/ssa"
)

func (e *Exec) lockKeyOf(v Value) lockKey {
	p, ok := v.(Ptr)
	if !ok || p.Obj == nil {
		e.goPanicRuntime("invalid memory address or nil pointer dereference")
	}
	return lockKey{p.Obj, pathKey(p.Path)}
}

func init() {
	nop := func(e *Exec, fn *ssa.Function, a []Value) Value { return nil }
	reg("(*sync.Mutex).Lock", func(e *Exec, fn *ssa.Function, a []Value) Value {
		if e.pr != nil {
			e.procSync("lock", a[0].(Ptr), 0)
			return nil
		}
		k := e.lockKeyOf(a[0])
		if e.locks[k] != 0 {
			panic(pathEnd{"deadlock", "Lock of a mutex already held (sequential execution)"})
		}
		e.locks[k] = -1
		e.lockEvents = append(e.lockEvents, lockEvent{k, "Lock"})
		return nil
	})
	reg("(*sync.Mutex).Unlock", func(e *Exec, fn *ssa.Function, a []Value) Value {
		if e.pr != nil {
			e.procSync("unlock", a[0].(Ptr), 0)
			return nil
		}
		k := e.lockKeyOf(a[0])
		if e.locks[k] != -1 {
			panic(&goPanic{val: e.runtimeError("sync: unlock of unlocked mutex"), msg: "fatal error: sync: unlock of unlocked mutex"})
		}
		e.locks[k] = 0
		e.lockEvents = append(e.lockEvents, lockEvent{k, "Unlock"})
		return nil
	})
	reg("(*sync.Mutex).TryLock", func(e *Exec, fn *ssa.Function, a []Value) Value {
		if e.pr != nil {
			// process mode: an event with two outcomes; the transition system enables "acquired" only when the mutex is free
			return Bool{C: e.procSyncN("trylock", a[0].(Ptr), 2) == 1}
		}
		k := e.lockKeyOf(a[0])
		if e.locks[k] != 0 {
			return Bool{C: false}
		}
		e.locks[k] = -1
		return Bool{C: true}
	})
	reg("(*sync.RWMutex).Lock", func(e *Exec, fn *ssa.Function, a []Value) Value {
		if e.pr != nil {
			e.procSync("lock", a[0].(Ptr), 0)
			return nil
		}
		k := e.lockKeyOf(a[0])
		if e.locks[k] != 0 {
			panic(pathEnd{"deadlock", "Lock of an RWMutex already held (sequential execution)"})
		}
		e.locks[k] = -1
		e.lockEvents = append(e.lockEvents, lockEvent{k, "Lock"})
		return nil
	})
	reg("(*sync.RWMutex).Unlock", func(e *Exec, fn *ssa.Function, a []Value) Value {
		if e.pr != nil {
			e.procSync("unlock", a[0].(Ptr), 0)
			return nil
		}
		k := e.lockKeyOf(a[0])
		if e.locks[k] != -1 {
			panic(&goPanic{val: e.runtimeError("sync: Unlock of unlocked RWMutex"), msg: "fatal error: sync: Unlock of unlocked RWMutex"})
		}
		e.locks[k] = 0
		e.lockEvents = append(e.lockEvents, lockEvent{k, "Unlock"})
		return nil
	})
	reg("(*sync.RWMutex).RLock", func(e *Exec, fn *ssa.Function, a []Value) Value {
		if e.pr != nil {
			e.procSync("rlock", a[0].(Ptr), 0)
			return nil
		}
		k := e.lockKeyOf(a[0])
		if e.locks[k] == -1 {
			panic(pathEnd{"deadlock", "RLock of a write-held RWMutex (sequential execution)"})
		}
		e.locks[k]++
		e.lockEvents = append(e.lockEvents, lockEvent{k, "RLock"})
		return nil
	})
	reg("(*sync.RWMutex).RUnlock", func(e *Exec, fn *ssa.Function, a []Value) Value {
		if e.pr != nil {
			e.procSync("runlock", a[0].(Ptr), 0)
			return nil
		}
		k := e.lockKeyOf(a[0])
		if e.locks[k] <= 0 {
			panic(&goPanic{val: e.runtimeError("sync: RUnlock of unlocked RWMutex"), msg: "fatal error: sync: RUnlock of unlocked RWMutex"})
		}
		e.locks[k]--
		e.lockEvents = append(e.lockEvents, lockEvent{k, "RUnlock"})
		return nil
	})
	// sync.Pool
	reg("(*sync.Pool).Put", func(e *Exec, fn *ssa.Function, a []Value) Value {
		k := e.lockKeyOf(a[0])
		if iv, ok := a[1].(Iface); ok && iv.T == nil {
			return nil
		}
		// pool discipline: an object that is already in the pool is put again (two later Gets would share it)
		if nv, ok := a[1].(Iface); ok {
			if np, ok := nv.V.(Ptr); ok && np.Obj != nil {
				for _, it := range e.pools[k] {
					if iv, ok := it.(Iface); ok {
						if ip, ok := iv.V.(Ptr); ok && ip.Obj == np.Obj {
							e.poolDoublePut++
							e.tags = append(e.tags, "sync.Pool: object put twice ("+np.Obj.Site+")")
						}
					}
				}
			}
		}
		e.pools[k] = append(e.pools[k], a[1])
		return nil
	})
	reg("(*sync.Pool).Get", func(e *Exec, fn *ssa.Function, a []Value) Value {
		k := e.lockKeyOf(a[0])
		items := e.pools[k]
		choice := len(items) // New
		switch e.poolMode {
		case 0:
			choice = e.pick(len(items) + 1)
		case 1:
			if len(items) > 0 {
				choice = len(items) - 1
			}
		}
		if choice < len(items) {
			v := items[choice]
			e.pools[k] = append(append([]Value{}, items[:choice]...), items[choice+1:]...)
			e.markPooled(v)
			e.St.Reach["sync.Pool.Get: recycled object"]++
			return v
		}
		// call New if set
		p := a[0].(Ptr)
		pool := e.load(p).(*Struct)
		st := deref(fn.Params[0].Type()).Underlying().(*types.Struct)
		for i := 0; i < st.NumFields(); i++ {
			if st.Field(i).Name() == "New" {
				nf := pool.F[i].(Closure)
				if nf.Fn == nil && nf.Nat == nil {
					return Iface{}
				}
				v := e.invoke(nf, nil, nil, nil)
				e.markPooled(v)
				return v
			}
		}
		return Iface{}
	})
	// WaitGroup
	reg("(*sync.WaitGroup).Add", func(e *Exec, fn *ssa.Function, a []Value) Value {
		if e.pr != nil {
			e.procSync("wgadd", a[0].(Ptr), e.concInt(a[1]))
			return nil
		}
		k := e.lockKeyOf(a[0])
		e.wgs[k] += e.concInt(a[1])
		if e.wgs[k] < 0 {
			e.goPanicRuntime("sync: negative WaitGroup counter")
		}
		return nil
	})
	reg("(*sync.WaitGroup).Done", func(e *Exec, fn *ssa.Function, a []Value) Value {
		if e.pr != nil {
			e.procSync("wgdone", a[0].(Ptr), 0)
			return nil
		}
		k := e.lockKeyOf(a[0])
		e.wgs[k]--
		if e.wgs[k] < 0 {
			e.goPanicRuntime("sync: negative WaitGroup counter")
		}
		return nil
	})
	reg("(*sync.WaitGroup).Wait", func(e *Exec, fn *ssa.Function, a []Value) Value {
		if e.pr != nil {
			e.procSync("wgwait", a[0].(Ptr), 0)
			return nil
		}
		k := e.lockKeyOf(a[0])
		if e.wgs[k] > 0 {
			panic(pathEnd{"deadlock", "WaitGroup.Wait with positive counter (sequential execution)"})
		}
		return nil
	})
	// sync/atomic primitives (sequential read-modify-write)
	for _, ty := range []string{"Int32", "Int64", "Uint32", "Uint64", "Uintptr", "Pointer"} {
		ty := ty
		reg("sync/atomic.Load"+ty, func(e *Exec, fn *ssa.Function, a []Value) Value {
			if e.pr != nil && e.isShared(a[0].(Ptr).Obj) {
				return e.procAtomic("load", a[0].(Ptr), nil, nil)
			}
			e.atomicDepth++
			defer func() { e.atomicDepth-- }()
			return e.load(a[0].(Ptr))
		})
		reg("sync/atomic.Store"+ty, func(e *Exec, fn *ssa.Function, a []Value) Value {
			if e.pr != nil && e.isShared(a[0].(Ptr).Obj) {
				e.procAtomic("store", a[0].(Ptr), a[1], nil)
				return nil
			}
			e.atomicDepth++
			defer func() { e.atomicDepth-- }()
			e.store(a[0].(Ptr), a[1])
			return nil
		})
		reg("sync/atomic.Swap"+ty, func(e *Exec, fn *ssa.Function, a []Value) Value {
			if e.pr != nil && e.isShared(a[0].(Ptr).Obj) {
				return e.procAtomic("swap", a[0].(Ptr), a[1], nil)
			}
			e.atomicDepth++
			defer func() { e.atomicDepth-- }()
			old := e.load(a[0].(Ptr))
			e.store(a[0].(Ptr), a[1])
			return old
		})
		reg("sync/atomic.CompareAndSwap"+ty, func(e *Exec, fn *ssa.Function, a []Value) Value {
			if e.pr != nil && e.isShared(a[0].(Ptr).Obj) {
				return e.procAtomic("cas", a[0].(Ptr), a[1], a[2])
			}
			e.atomicDepth++
			defer func() { e.atomicDepth-- }()
			old := e.load(a[0].(Ptr))
			eq := e.equal(old, a[1])
			var same bool
			if eq.Op == 0 && eq.W == 0 {
				same = eq.Val == 1
			} else {
				same = e.branch(eq)
			}
			if same {
				e.store(a[0].(Ptr), a[2])
				return Bool{C: true}
			}
			return Bool{C: false}
		})
		if ty != "Pointer" {
			reg("sync/atomic.Add"+ty, func(e *Exec, fn *ssa.Function, a []Value) Value {
				if e.pr != nil && e.isShared(a[0].(Ptr).Obj) {
					return e.procAtomic("add", a[0].(Ptr), a[1], nil)
				}
				e.atomicDepth++
				defer func() { e.atomicDepth-- }()
				old := e.load(a[0].(Ptr)).(Int)
				nv := e.intBinop(addTok, old, a[1].(Int), false, nil).(Int)
				e.store(a[0].(Ptr), nv)
				return nv
			})
			reg("sync/atomic.And"+ty, nop)
			reg("sync/atomic.Or"+ty, nop)
			delete(intrinsics, "sync/atomic.And"+ty)
			delete(intrinsics, "sync/atomic.Or"+ty)
		}
	}
	reg("sync.runtime_registerPoolCleanup", nop)
	reg("sync.fatal", func(e *Exec, fn *ssa.Function, a []Value) Value {
		s, _ := e.goString(a[0].(Str))
		panic(&goPanic{val: e.runtimeError(s), msg: "fatal error: " + s})
	})
	reg("sync.throw", func(e *Exec, fn *ssa.Function, a []Value) Value {
		s, _ := e.goString(a[0].(Str))
		panic(&goPanic{val: e.runtimeError(s), msg: "fatal error: " + s})
	})
	// sync.Once via its real body needs atomic + mutex: fine. 
}

type lockEvent struct {
	k  lockKey
	op string
}

// markPooled records that the object(s) directly referenced by v were handed out by a pool now.
func (e *Exec) markPooled(v Value) {
	iv, ok := v.(Iface)
	if !ok || iv.T == nil {
		return
	}
	if p, ok := iv.V.(Ptr); ok && p.Obj != nil {
		p.Obj.Pool = true
		p.Obj.PoolEpoch = e.epoch
		// a pooled *[]byte / *Store: objects reachable one level down are owned too
		e.markReach(p.Obj.V, 2)
	}
}

func (e *Exec) markReach(v Value, depth int) {
	if depth == 0 {
		return
	}
	switch x := v.(type) {
	case Slice:
		if x.A.Obj != nil {
			x.A.Obj.Pool = true
			x.A.Obj.PoolEpoch = e.epoch
		}
	case Ptr:
		if x.Obj != nil {
			x.Obj.Pool = true
			x.Obj.PoolEpoch = e.epoch
			e.markReach(x.Obj.V, depth-1)
		}
	case *Struct:
		for _, f := range x.F {
			e.markReach(f, depth)
		}
	}
}
