package exec

import (
	"fmt"
	"go/types"

	"golang.org/x/tools/go/ssa"
	"vx/term"
)

// Term maps: maps whose key is an integer type and whose value is a scalar (bool / integer) are
// represented as a write log over an optional symbolic base (DESIGN 3, C11): lookups and updates
// with symbolic keys build ite terms instead of forking, and an arbitrary pre-existing content is
// modelled lazily (every lookup of the base returns a fresh variable, constrained to be consistent
// with earlier lookups of the same base). len / range are only supported when every key is concrete.

type tmWrite struct {
	guard   *term.Term // write happened iff guard
	key     *term.Term
	val     *term.Term // Bool (W==0) or BV
	present *term.Term // false for delete
}

type tmBase struct {
	keys  []*term.Term
	vals  []*term.Term
	name  string
	input int // index of the InputVal that records the looked-up (key, value) pairs for native replay
}

type termMap struct {
	kw     int // key width
	vw     int // value width (0: bool)
	writes []tmWrite
	base   *tmBase
}

// MapSel: result of loading a map out of an array of maps with a symbolic index.
type MapSel struct {
	Maps []MapV
	Idx  *term.Term
}

func termMapType(t types.Type) (kw, vw int, ok bool) {
	mt, isMap := t.Underlying().(*types.Map)
	if !isMap {
		return 0, 0, false
	}
	kw, _, kok := intWidth(mt.Key())
	if !kok {
		return 0, 0, false
	}
	if isBool(mt.Elem()) {
		return kw, 0, true
	}
	if w, _, vok := intWidth(mt.Elem()); vok {
		return kw, w, true
	}
	return 0, 0, false
}

func (e *Exec) valTerm(v Value) *term.Term {
	switch x := v.(type) {
	case Int:
		return e.intTerm(x)
	case Bool:
		return e.boolTerm(x)
	}
	e.unsupported(fmt.Sprintf("term map value %T", v))
	return nil
}

func (e *Exec) termVal(t *term.Term) Value {
	if t.W == 0 {
		return e.fromBoolTerm(t)
	}
	return e.fromTerm(t)
}

func (e *Exec) tmZero(tm *termMap) *term.Term {
	if tm.vw == 0 {
		return e.TB.False
	}
	return e.TB.Const(tm.vw, 0)
}

// tmLookup returns (value, present) terms of tm[k].
func (e *Exec) tmLookup(tm *termMap, k *term.Term) (*term.Term, *term.Term) {
	val, pres := e.tmZero(tm), e.TB.False
	if tm.base != nil {
		b := tm.base
		// fresh variables for this lookup, consistent with earlier lookups of the same base
		idx := len(b.keys)
		var v *term.Term
		for i, bk := range b.keys {
			if bk == k {
				v = b.vals[i]
			}
		}
		if v == nil {
			v = e.freshVar(fmt.Sprintf("m%s_%d_", b.name, idx), tm.vw)
			for i, bk := range b.keys {
				c := e.TB.Implies(e.TB.Eq(bk, k), e.TB.Eq(b.vals[i], v))
				e.assume(c, true) // functional consistency: never infeasible (v is fresh)
			}
			b.keys = append(b.keys, k)
			b.vals = append(b.vals, v)
			if b.input >= 0 && b.input < len(e.inputs) {
				e.inputs[b.input].terms = append(e.inputs[b.input].terms, k, v)
			}
		}
		val = v
		if tm.vw == 0 {
			pres = v // for map[K]bool the base is read as "absent = false"
		} else {
			pres = e.TB.True
		}
	}
	for _, w := range tm.writes {
		hit := e.TB.And(w.guard, e.TB.Eq(w.key, k))
		val = e.TB.Ite(hit, w.val, val)
		pres = e.TB.Ite(hit, w.present, pres)
	}
	return val, pres
}

func (e *Exec) tmUpdate(tm *termMap, guard, k, v *term.Term, present bool) {
	tm.writes = append(tm.writes, tmWrite{guard: guard, key: k, val: v, present: e.TB.Bool(present)})
}

func (e *Exec) keyTerm(tm *termMap, k Value) *term.Term {
	kt := e.valTerm(k)
	if kt.W != tm.kw {
		e.unsupported("term map key width")
	}
	return kt
}

func init() {
	// vxSymMapU32Bool(name string) map[uint32]bool: a map with arbitrary (lazily modelled) content
	vxAPI["vxSymMapU32Bool"] = func(e *Exec, fn *ssa.Function, a []Value) Value {
		name, _ := e.goString(a[0].(Str))
		e.objSeq++
		e.inputs = append(e.inputs, InputVal{Call: "vxSymMapU32Bool", terms: []*term.Term{}})
		mo := &MapObj{ID: e.objSeq, Epoch: e.epoch, TM: &termMap{kw: 32, vw: 0, base: &tmBase{name: name, input: len(e.inputs) - 1}}}
		return MapV{mo}
	}
}
