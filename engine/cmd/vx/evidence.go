package main

import (
	"fmt"
	"sort"

	"vx/smt"

	vexec "vx/exec"
)

type Evidence struct {
	PropertyID  string                 `json:"property_id"`
	Tier        string                 `json:"tier"`
	Seed        int                    `json:"seed"`
	Level       string                 `json:"level"`
	Coverage    map[string]interface{} `json:"coverage"`
	Assumptions []string               `json:"assumptions"`
	WallS       float64                `json:"wall_s"`
	Violations  int                    `json:"violations"`
}

func buildEvidence(prop, tier string, seed int, c *CheckCfg, tc TierCfg, results []namedStats, ovNotes, notes []string,
	prog *vexec.Program, loadS float64, violations, mismatch, validated, knownMatched int, wall float64, solver string) *Evidence {
	cov := map[string]interface{}{}
	var queries, paths, pathsDone, forks, asserts, proved, unknowns, solverErrs int
	var solverS float64
	var steps int64
	funcs := map[string]int{}
	stubs := map[string]int{}
	reach := map[string]int{}
	incon := []string{}
	var samples []interface{}
	perH := []map[string]interface{}{}
	for _, r := range results {
		st := r.St
		queries += st.Queries
		paths += st.Paths
		pathsDone += st.PathsDone
		forks += st.Forks
		asserts += st.Asserts
		proved += st.AssertProved
		unknowns += st.Unknowns
		solverErrs += st.SolverErrors
		solverS += st.SolverTime.Seconds()
		steps += st.Steps
		for k, v := range st.Funcs {
			funcs[k] = v
		}
		for k, v := range st.Stubs {
			stubs[k] += v
		}
		for k, v := range st.Reach {
			reach[k] += v
		}
		for k, v := range st.Unsupported {
			incon = append(incon, fmt.Sprintf("%s: unsupported x%d: %s", r.Name, v, k))
		}
		for k, v := range st.Limits {
			incon = append(incon, fmt.Sprintf("%s: limit x%d: %s", r.Name, v, k))
		}
		for i, s := range st.Samples {
			if i >= 2 {
				break
			}
			samples = append(samples, map[string]interface{}{"harness": r.Name, "kind": "feasible path witness (solver model)", "inputs": summarize(s), "path": s.Path})
		}
		for i, v := range st.Violations {
			if i >= 2 {
				break
			}
			samples = append(samples, map[string]interface{}{"harness": r.Name, "kind": "counterexample (" + v.Kind + ")", "msg": v.Msg, "inputs": summarize(v), "tags": v.Tags})
		}
		perH = append(perH, map[string]interface{}{
			"harness": r.Name, "paths": st.Paths, "paths_completed": st.PathsDone, "paths_cut_by_assume": st.PathsAssume, "paths_panicking": st.PathsPanic,
			"forks": st.Forks, "queries": st.Queries, "solver_s": round2(st.SolverTime.Seconds()), "wall_s": round2(st.Wall.Seconds()),
			"assertion_checks": st.Asserts, "assertion_checks_proved": st.AssertProved, "counterexamples": len(st.Violations), "max_path_condition": st.MaxPC,
			"ssa_instructions_executed": st.Steps,
		})
	}
	sort.Strings(incon)
	var fl []string
	for k, v := range funcs {
		fl = append(fl, fmt.Sprintf("%s (%d instrs)", k, v))
	}
	sort.Strings(fl)
	var sl []string
	for k, v := range stubs {
		sl = append(sl, fmt.Sprintf("%s x%d", k, v))
	}
	sort.Strings(sl)
	var files []string
	for f, h := range prog.Files {
		files = append(files, f+" sha256:"+h[:16])
	}
	sort.Strings(files)
	if len(samples) == 0 {
		samples = append(samples, map[string]interface{}{"note": "no completed path"})
	}
	if queries > 0 {
		cov["evaluations"] = queries
	} else {
		cov["evaluations"] = asserts // every assertion was decided by constant folding: no solver query was needed
	}
	cov["distinct_nontrivial"] = paths
	cov["rule"] = "evaluations = SMT queries discharged (branch feasibility + negated assertions) by the persistent solver; distinct_nontrivial = distinct feasible path classes of the real code's SSA explored to the end (each is a distinct conjunction of branch decisions, proved satisfiable); every assertion is checked for ALL values of the symbolic inputs on its path"
	cov["samples"] = samples
	cov["states"] = maxi(paths, 1)
	cov["transitions"] = maxi(forks, 1)
	cov["traces_validated_against_impl"] = validated
	cov["exhaustive"] = len(incon) == 0 && unknowns == 0 && solverErrs == 0
	cov["explanation"] = "bounded symbolic execution of go/ssa of /repo's working tree; every assertion query answered unsat by the SMT solver within the stated bounds, or a model replayed natively"
	cov["functions_encoded"] = fl
	cov["source_files"] = files
	cov["stubs_and_intrinsics"] = sl
	cov["bounds"] = map[string]interface{}{"params": tc.Params, "maxSteps": tc.MaxSteps, "maxIter(unwinding)": def(tc.MaxIter, 5000), "harnesses": tc.Harnesses}
	cov["queries"] = queries
	cov["solver"] = solver + " (libz3 " + smt.Z3LibVersion() + " in-process)"
	cov["solver_s"] = round2(solverS)
	cov["load_ssa_s"] = round2(loadS)
	cov["paths"] = paths
	cov["paths_completed"] = pathsDone
	cov["forks"] = forks
	cov["assertion_checks"] = asserts
	cov["assertion_checks_proved"] = proved
	cov["ssa_instructions_executed"] = steps
	cov["unwinding_ok"] = len(incon) == 0
	cov["inconclusive"] = incon
	cov["solver_unknown"] = unknowns
	cov["solver_errors"] = solverErrs
	cov["reach_witnesses"] = reach
	cov["engine_mismatch"] = mismatch
	cov["known_findings_matched"] = knownMatched
	cov["per_harness"] = perH
	cov["cross_solver"] = crossSolverResults
	cov["outside_the_claim"] = c.Outside
	cov["notes"] = append(append([]string{}, notes...), ovNotes...)
	cov["append_growth_model"] = vexec.SizeClassSource
	lvl := c.Level
	if lvl == "" {
		lvl = "model_checking"
	}
	return &Evidence{PropertyID: prop, Tier: tier, Seed: seed, Level: lvl, Coverage: cov, Assumptions: append([]string{}, c.Assumptions...), WallS: round2(wall), Violations: violations}
}

func round2(f float64) float64 { return float64(int(f*100+0.5)) / 100 }
func maxi(a, b int) int {
	if a > b {
		return a
	}
	return b
}
