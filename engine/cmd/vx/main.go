// vx: driver for the solver-based checks (Engine 1: symbolic execution of go/ssa).
//
//	vx check <Cxx> [-tier quick|thorough] [-only H_name] [-workers N] [-solver z3|z3-new|cvc5]
//	vx replay <replay.json>
package main

import (
	"crypto/sha256"
	"encoding/hex"
	"encoding/json"
	"flag"
	"fmt"
	"os"
	"os/exec"
	"path/filepath"
	"runtime/debug"
	"runtime/pprof"
	"sort"
	"strings"
	"time"

	"golang.org/x/tools/go/ssa"
	vexec "vx/exec"
	"vx/load"
)

const verifDir = "/verif"

type TierCfg struct {
	Params     map[string]int `json:"params"`
	Harnesses  []string       `json:"harnesses"`
	MaxSteps   int            `json:"maxSteps"`
	MaxIter    int            `json:"maxIter"`
	MaxDepth   int            `json:"maxDepth"`
	MaxPaths   int            `json:"maxPaths"`
	SplitDepth int            `json:"splitDepth"`
	TimeoutS   int            `json:"timeout_s"`
	QueryMs    int            `json:"query_ms"`
}

type CheckCfg struct {
	Property    string             `json:"property"`
	Dir         string             `json:"dir"`     // package dir relative to /repo
	PkgName     string             `json:"pkgname"` // package clause
	Level       string             `json:"level"`
	Tiers       map[string]TierCfg `json:"tiers"`
	Vacuity     []string           `json:"vacuity"`      // harnesses that must be violated (reachability twins)
	Reach       []string           `json:"reach"`        // vxReach labels that must be hit
	PanicOK     []string           `json:"panic_ok"`     // harnesses where an uncaught panic is not a violation
	Assumptions []string           `json:"assumptions"`  // free text, copied into evidence
	Outside     []string           `json:"outside"`      // free text: outside the claim
	Overlays    map[string]string  `json:"src_overlays"`
	MaxCex      int      `json:"max_cex"`      // stop a harness after this many counterexamples (default 12)
	CrossSolver []string `json:"cross_solver"` // thorough tier: these harnesses are re-run with z3 4.8.12 (pipe) and cvc5 and the verdicts compared
	FuncStubs map[string]string `json:"func_stubs"` // engine-only replacement of a function under test by a harness function (native replay runs the real one)
	HarnessFrom string `json:"harness_from"` // take the harness .go files from another property's directory
	ValidateWitnesses int `json:"validate_witnesses"`
	Monitor   []string `json:"monitor"` // harnesses whose assertions read engine-side monitors (lock-set / write-set): a counterexample cannot be replayed by the inert native runtime and is confirmed by the native_confirm test instead
	NativeConfirm *struct {
		File string `json:"file"`
		Test string `json:"test"`
		Race bool   `json:"race"`
	} `json:"native_confirm"`
	Inductive []string `json:"inductive"` // harnesses that start from an assumed invariant: a failure is a CTI, reported only as a note // repo-relative file -> sed-like "old=>new" one-line source overlay
}

type Known struct {
	Property string `json:"property"`
	Status   string `json:"status"` // known | fixed
	Harness  string `json:"harness,omitempty"`
	Match    string `json:"match"` // substring of the violation message / tag
	What     string `json:"what"`
	Commit   string `json:"commit,omitempty"`
}

func main() {
	if len(os.Args) < 2 {
		fmt.Fprintln(os.Stderr, "usage: vx check <Cxx> | vx replay <file>")
		os.Exit(2)
	}
	switch os.Args[1] {
	case "check":
		os.Exit(cmdCheck(os.Args[2:]))
	case "replay":
		os.Exit(cmdReplay(os.Args[2:]))
	case "extract":
		os.Exit(cmdExtract(os.Args[2:]))
	default:
		fmt.Fprintln(os.Stderr, "unknown command")
		os.Exit(2)
	}
}

func readCfg(prop string) (*CheckCfg, error) {
	data, err := os.ReadFile(filepath.Join(verifDir, "harness", prop, "check.json"))
	if err != nil {
		return nil, err
	}
	var c CheckCfg
	if err := json.Unmarshal(data, &c); err != nil {
		return nil, fmt.Errorf("check.json: %v", err)
	}
	if c.MaxCex > 0 {
		vexec.MaxCex = c.MaxCex
	}
	return &c, nil
}

func harnessFor(prop string, c *CheckCfg) (*load.Harness, error) {
	h := &load.Harness{RepoDir: "/repo", PkgDir: c.Dir, PkgName: c.PkgName, Files: map[string]string{}}
	src := prop
	if c.HarnessFrom != "" {
		src = c.HarnessFrom
	}
	matches, _ := filepath.Glob(filepath.Join(verifDir, "harness", src, "*.go"))
	for _, m := range matches {
		h.Files["zz_vx_"+prop+"_"+filepath.Base(m)] = m
	}
	if len(h.Files) == 0 {
		return nil, fmt.Errorf("no harness files for %s", prop)
	}
	return h, nil
}

func srcOverlays(c *CheckCfg) (map[string][]byte, []string, error) {
	out := map[string][]byte{}
	var notes []string
	for rel, rule := range c.Overlays {
		parts := strings.SplitN(rule, "=>", 2)
		if len(parts) != 2 {
			return nil, nil, fmt.Errorf("bad overlay rule %q", rule)
		}
		path := filepath.Join("/repo", rel)
		data, err := os.ReadFile(path)
		if err != nil {
			return nil, nil, err
		}
		if strings.Count(string(data), parts[0]) != 1 {
			return nil, nil, fmt.Errorf("overlay rule %q does not match exactly once in %s", parts[0], rel)
		}
		out[path] = []byte(strings.Replace(string(data), parts[0], parts[1], 1))
		notes = append(notes, fmt.Sprintf("source overlay on %s: %q => %q", rel, parts[0], parts[1]))
	}
	return out, notes, nil
}

func cmdCheck(args []string) int {
	defer runner.cleanup()
	fs := flag.NewFlagSet("check", flag.ExitOnError)
	tier := fs.String("tier", "", "quick|thorough (default: $VERIF_TIER or quick)")
	only := fs.String("only", "", "run only this harness")
	workers := fs.Int("workers", 16, "parallel workers")
	solver := fs.String("solver", "z3lib", "z3lib|z3|z3-new|cvc5")
	trace := fs.Bool("trace", false, "trace calls")
	noReplay := fs.Bool("noreplay", false, "skip native replay")
	cpuprof := fs.String("cpuprofile", "", "write CPU profile")
	if len(args) < 1 {
		fmt.Fprintln(os.Stderr, "usage: vx check <Cxx> [flags]")
		return 2
	}
	prop := args[0]
	fs.Parse(args[1:])
	if *tier == "" {
		*tier = os.Getenv("VERIF_TIER")
	}
	if *tier != "thorough" {
		*tier = "quick"
	}
	if *cpuprof != "" {
		f, _ := os.Create(*cpuprof)
		pprof.StartCPUProfile(f)
		defer pprof.StopCPUProfile()
	}
	debug.SetGCPercent(400)
	seed := 0
	fmt.Sscan(os.Getenv("VERIF_SEED"), &seed)
	start := time.Now()

	c, err := readCfg(prop)
	if err != nil {
		fmt.Fprintln(os.Stderr, "vx:", err)
		return 2
	}
	tc, ok := c.Tiers[*tier]
	if !ok {
		tc = c.Tiers["quick"]
	}
	h, err := harnessFor(prop, c)
	if err != nil {
		fmt.Fprintln(os.Stderr, "vx:", err)
		return 2
	}
	extra, ovNotes, err := srcOverlays(c)
	if err != nil {
		fmt.Fprintln(os.Stderr, "vx:", err)
		return 2
	}
	t0 := time.Now()
	prog, pkg, err := load.Load(h, filepath.Join(verifDir, "rt"), extra)
	if err != nil {
		fmt.Fprintln(os.Stderr, "vx: load:", err)
		return 2
	}
	loadS := time.Since(t0).Seconds()

	cfg := &vexec.Config{
		MaxSteps: def(tc.MaxSteps, 2000000), MaxIter: def(tc.MaxIter, 5000), MaxDepth: def(tc.MaxDepth, 200),
		MaxPaths: tc.MaxPaths, Workers: *workers, SplitDepth: def(tc.SplitDepth, 6), Solver: *solver,
		TimeoutMs: def(tc.QueryMs, 20000), Params: tc.Params, Trace: *trace, FuncStubs: c.FuncStubs,
	}
	if tc.TimeoutS > 0 {
		cfg.Deadline = time.Now().Add(time.Duration(tc.TimeoutS) * time.Second)
	}
	names := tc.Harnesses
	if *only != "" {
		names = []string{*only}
	}
	allH := allHarnessNames(pkg)
	known := loadKnown(prop)

	type hres = namedStats
	var results []hres
	vacOK := map[string]bool{}
	exit := 0
	var violLines, knownLines, notes []string
	violations := 0
	engineMismatch := 0
	tracesValidated := 0
	for _, name := range append(append([]string{}, names...), c.Vacuity...) {
		fn := pkg.Func(name)
		if fn == nil {
			fmt.Fprintf(os.Stderr, "vx: harness %s not found\n", name)
			return 2
		}
		hc := *cfg
		hc.PanicOK = contains(c.PanicOK, name)
		st := vexec.RunHarness(prog, &hc, fn)
		results = append(results, hres{name, st})
		isVac := contains(c.Vacuity, name) && !contains(names, name)
		fmt.Printf("harness %-28s paths=%d done=%d assume=%d panic=%d forks=%d queries=%d solver=%.1fs wall=%.1fs violations=%d\n",
			name, st.Paths, st.PathsDone, st.PathsAssume, st.PathsPanic, st.Forks, st.Queries, st.SolverTime.Seconds(), st.Wall.Seconds(), len(st.Violations))
		for k, v := range st.Unsupported {
			fmt.Printf("  INCONCLUSIVE unsupported x%d: %s\n", v, k)
		}
		for k, v := range st.Limits {
			fmt.Printf("  INCONCLUSIVE limit x%d: %s\n", v, k)
		}
		for k, v := range st.Ends {
			fmt.Printf("  path end x%d: %s\n", v, k)
		}
		if st.Unknowns > 0 || st.SolverErrors > 0 {
			fmt.Printf("  INCONCLUSIVE solver unknown=%d errors=%d\n", st.Unknowns, st.SolverErrors)
		}
		if isVac {
			vacOK[name] = len(st.Violations) > 0
			if !vacOK[name] {
				notes = append(notes, "vacuity twin "+name+" was NOT violated: harness may be vacuous")
				fmt.Printf("  VACUITY-FAILURE: twin %s not violated\n", name)
			}
			continue
		}
		if contains(c.Inductive, name) {
			if len(st.Violations) > 0 {
				msg := fmt.Sprintf("inductive step %s: %d counterexample(s) to induction, e.g. %q (%s); not a violation by itself (the pre-state may be unreachable): the claim is reduced to the bounded histories", name, len(st.Violations), st.Violations[0].Msg, summarize(st.Violations[0]))
				notes = append(notes, msg)
				fmt.Println("  CTI: " + msg)
			}
			continue
		}
		// confirm violations by native replay
		for i, v := range st.Violations {
			if i >= 4 {
				break
			}
			rp := writeReplay(prop, name, v, tc.Params)
			if k := matchKnown(known, name, v); k != nil {
				knownLines = append(knownLines, fmt.Sprintf("KNOWN-FINDING: property=%s %s", prop, k.What))
				continue
			}
			if *noReplay {
				violLines = append(violLines, fmt.Sprintf("VIOLATION property=%s replay=%s", prop, rp))
				violations++
				continue
			}
			var out, verdict string
			if contains(c.Monitor, name) && c.NativeConfirm != nil {
				out, verdict = nativeConfirm(prop, c, extra)
			} else {
				out, verdict = nativeReplay(h, c, allH, name, rp, extra)
			}
			switch verdict {
			case "FAIL", "PANIC":
				tracesValidated++
				violations++
				violLines = append(violLines, fmt.Sprintf("VIOLATION property=%s replay=%s", prop, rp))
				fmt.Printf("  violation confirmed natively (%s): %s :: %s\n", verdict, v.Msg, summarize(v))
			default:
				engineMismatch++
				fmt.Printf("  ENGINE-MISMATCH: %s not reproduced natively (%s): %s %v\n    %s\n", v.Msg, verdict, summarize(v), v.Tags, lastLines(out, 3))
			}
		}
	}
	// cross-solver diff (thorough tier): same harness, other back ends, verdicts and path counts must agree
	var cross []map[string]interface{}
	if *tier == "thorough" && *only == "" {
		for _, name := range c.CrossSolver {
			var ref *vexec.Stats
			for _, r := range results {
				if r.Name == name {
					ref = r.St
				}
			}
			fn := pkg.Func(name)
			if ref == nil || fn == nil {
				continue
			}
			for _, alt := range []string{"z3", "cvc5"} {
				hc := *cfg
				hc.Solver = alt
				hc.Workers = 8
				hc.PanicOK = contains(c.PanicOK, name)
				st := vexec.RunHarness(prog, &hc, fn)
				agree := st.Paths == ref.Paths && st.PathsDone == ref.PathsDone && len(st.Violations) == len(ref.Violations) && st.Unknowns == 0 && st.SolverErrors == 0
				cross = append(cross, map[string]interface{}{"harness": name, "solver": alt, "paths": st.Paths, "paths_reference": ref.Paths, "violations": len(st.Violations), "agree": agree, "solver_s": round2(st.SolverTime.Seconds())})
				fmt.Printf("cross-solver %-24s %-6s paths=%d (reference %d) violations=%d agree=%v\n", name, alt, st.Paths, ref.Paths, len(st.Violations), agree)
				if !agree {
					notes = append(notes, fmt.Sprintf("cross-solver disagreement on %s with %s", name, alt))
					fmt.Printf("  INCONCLUSIVE: cross-solver disagreement on %s with %s\n", name, alt)
				}
			}
		}
	}
	crossSolverResults = cross
	// native validation of sampled witnesses (translator / oracle validation)
	if c.ValidateWitnesses > 0 && !*noReplay {
		for _, r := range results {
			if contains(c.Vacuity, r.Name) && !contains(names, r.Name) {
				continue
			}
			n := 0
			for _, w := range r.St.Samples {
				if n >= c.ValidateWitnesses {
					break
				}
				n++
				rp := writeReplayTmp(prop, r.Name, w, tc.Params)
				out, verdict := nativeReplay(h, c, allH, r.Name, rp, extra)
				switch verdict {
				case "PASS":
					tracesValidated++
				case "FAIL", "PANIC":
					// the native harness (which also consults the real environment, e.g. real shells) disagrees
					keep := writeReplay(prop, r.Name, w, tc.Params)
					violations++
					violLines = append(violLines, fmt.Sprintf("VIOLATION property=%s replay=%s", prop, keep))
					fmt.Printf("  witness fails natively (%s): %s\n    %s\n", verdict, summarize(w), lastLines(out, 6))
				default:
					engineMismatch++
					fmt.Printf("  ENGINE-MISMATCH: witness replay gave %s: %s\n    %s\n", verdict, summarize(w), lastLines(out, 6))
				}
				os.Remove(rp)
			}
		}
	}
	// required reach labels
	reachAll := map[string]int{}
	for _, r := range results {
		for k, v := range r.St.Reach {
			reachAll[k] += v
		}
	}
	for _, lbl := range c.Reach {
		if reachAll[lbl] == 0 && *only == "" {
			notes = append(notes, "reach label never hit: "+lbl)
			fmt.Printf("  REACH-FAILURE: label %q never reached\n", lbl)
		}
	}
	// dedupe known lines
	sort.Strings(knownLines)
	knownLines = uniq(knownLines)
	for _, l := range knownLines {
		fmt.Println(l)
	}
	for _, l := range uniq(violLines) {
		fmt.Println(l)
	}
	if violations > 0 {
		exit = 1
	}

	// evidence
	ev := buildEvidence(prop, *tier, seed, c, tc, results0(results), ovNotes, notes, prog, loadS, violations, engineMismatch, tracesValidated, len(knownLines), time.Since(start).Seconds(), *solver)
	if *only == "" {
		os.MkdirAll(filepath.Join(verifDir, "evidence"), 0o755)
		data, _ := json.MarshalIndent(ev, "", " ")
		os.WriteFile(filepath.Join(verifDir, "evidence", prop+".json"), data, 0o644)
	}
	fmt.Printf("%s %s: exit=%d wall=%.1fs\n", prop, *tier, exit, time.Since(start).Seconds())
	return exit
}

type namedStats struct {
	Name string
	St   *vexec.Stats
}

func results0(in []namedStats) []namedStats { return in }

func def(v, d int) int {
	if v == 0 {
		return d
	}
	return v
}

func contains(l []string, s string) bool {
	for _, x := range l {
		if x == s {
			return true
		}
	}
	return false
}

func uniq(l []string) []string {
	var out []string
	seen := map[string]bool{}
	for _, x := range l {
		if !seen[x] {
			seen[x] = true
			out = append(out, x)
		}
	}
	return out
}

func allHarnessNames(pkg *ssa.Package) []string {
	var out []string
	for name, m := range pkg.Members {
		if f, ok := m.(*ssa.Function); ok && strings.HasPrefix(name, "H_") && f.Signature.Params().Len() == 0 {
			out = append(out, name)
		}
	}
	sort.Strings(out)
	return out
}

func summarize(v vexec.Violation) string {
	var parts []string
	for _, in := range v.Inputs {
		switch in.Call {
		case "vxString", "vxStringN", "vxBytes":
			b := make([]byte, len(in.Vals))
			for i, x := range in.Vals {
				b[i] = byte(x)
			}
			parts = append(parts, fmt.Sprintf("%q", string(b)))
		default:
			if len(in.Vals) == 1 {
				parts = append(parts, fmt.Sprintf("%s=%d", strings.TrimPrefix(in.Call, "vx"), in.Vals[0]))
			}
		}
	}
	s := strings.Join(parts, " ")
	if len(s) > 300 {
		s = s[:300] + "..."
	}
	return s
}

func lastLines(s string, n int) string {
	ls := strings.Split(strings.TrimSpace(s), "\n")
	if len(ls) > n {
		ls = ls[len(ls)-n:]
	}
	return strings.Join(ls, "\n    ")
}

// ---------------------------------------------------------------- known findings

func loadKnown(prop string) []Known {
	data, err := os.ReadFile(filepath.Join(verifDir, "known_findings.json"))
	if err != nil {
		return nil
	}
	var all []Known
	if json.Unmarshal(data, &all) != nil {
		return nil
	}
	var out []Known
	for _, k := range all {
		if k.Property == prop && k.Status == "known" {
			out = append(out, k)
		}
	}
	return out
}

func matchKnown(ks []Known, harness string, v vexec.Violation) *Known {
	for i := range ks {
		k := &ks[i]
		if k.Harness != "" && k.Harness != harness {
			continue
		}
		if strings.Contains(v.Msg, k.Match) {
			return k
		}
		for _, t := range v.Tags {
			if t == k.Match {
				return k
			}
		}
	}
	return nil
}

// ---------------------------------------------------------------- replay

type replayFile struct {
	Property string           `json:"property"`
	Harness  string           `json:"harness"`
	Kind     string           `json:"kind"`
	Msg      string           `json:"msg"`
	Inputs   []vexec.InputVal `json:"inputs"`
	Params   map[string]int   `json:"params"`
	Summary  string           `json:"summary"`
}

func writeReplay(prop, harness string, v vexec.Violation, params map[string]int) string {
	rf := replayFile{Property: prop, Harness: harness, Kind: v.Kind, Msg: v.Msg, Inputs: v.Inputs, Params: params, Summary: summarize(v)}
	data, _ := json.MarshalIndent(rf, "", " ")
	sum := sha256.Sum256(data)
	dir := filepath.Join(verifDir, "replays", prop)
	os.MkdirAll(dir, 0o755)
	p := filepath.Join(dir, harness+"-"+hex.EncodeToString(sum[:6])+".json")
	os.WriteFile(p, data, 0o644)
	return p
}

type nativeRunner struct {
	tmp   string
	bin   string
	err   string
	built bool
}

var runner nativeRunner
var crossSolverResults []map[string]interface{}

func (r *nativeRunner) cleanup() {
	if r.tmp != "" {
		os.RemoveAll(r.tmp)
	}
}

func (r *nativeRunner) build(h *load.Harness, c *CheckCfg, harnesses []string, extra map[string][]byte) {
	if r.built {
		return
	}
	r.built = true
	tmp, err := os.MkdirTemp("", "vxreplay")
	if err != nil {
		r.err = err.Error()
		return
	}
	r.tmp = tmp
	ov, err := h.Overlay(filepath.Join(verifDir, "rt"), true, harnesses)
	if err != nil {
		r.err = err.Error()
		return
	}
	for k, v := range extra {
		ov[k] = v
	}
	repl := map[string]string{}
	i := 0
	for virt, data := range ov {
		real := filepath.Join(tmp, fmt.Sprintf("f%d_%s", i, filepath.Base(virt)))
		i++
		os.WriteFile(real, data, 0o644)
		repl[virt] = real
	}
	oj, _ := json.Marshal(map[string]interface{}{"Replace": repl})
	ovPath := filepath.Join(tmp, "overlay.json")
	os.WriteFile(ovPath, oj, 0o644)
	r.bin = filepath.Join(tmp, "replay.test")
	cmd := exec.Command("go", "test", "-vet=off", "-c", "-o", r.bin, "-overlay", ovPath, "./"+c.Dir)
	cmd.Dir = "/repo"
	cmd.Env = append(os.Environ(), "GOFLAGS=-mod=mod", "GOPROXY=off", "GOSUMDB=off", "GOTOOLCHAIN=local")
	out, err := cmd.CombinedOutput()
	if err != nil {
		r.err = "go test -c failed: " + err.Error() + "\n" + string(out)
	}
}

func nativeReplay(h *load.Harness, c *CheckCfg, harnesses []string, name, replayPath string, extra map[string][]byte) (string, string) {
	runner.build(h, c, harnesses, extra)
	if runner.err != "" {
		return runner.err, "ERROR"
	}
	ctxCmd := exec.Command("timeout", "120", runner.bin, "-test.run", "^TestVxReplay$", "-test.v", "-test.count=1")
	ctxCmd.Dir = filepath.Join("/repo", c.Dir)
	ctxCmd.Env = append(os.Environ(), "VX_REPLAY="+replayPath, "VX_HARNESS="+name)
	out, _ := ctxCmd.CombinedOutput()
	s := string(out)
	for _, line := range strings.Split(s, "\n") {
		if i := strings.Index(line, "VX-REPLAY: "); i >= 0 {
			f := strings.Fields(line[i:])
			if len(f) >= 2 {
				return s, f[1]
			}
		}
	}
	if strings.Contains(s, "panic:") || strings.Contains(s, "fatal error:") {
		return s, "PANIC"
	}
	return s, "NOVERDICT"
}

func cmdReplay(args []string) int {
	defer runner.cleanup()
	if len(args) < 1 {
		fmt.Fprintln(os.Stderr, "usage: vx replay <file>")
		return 2
	}
	data, err := os.ReadFile(args[0])
	if err != nil {
		fmt.Fprintln(os.Stderr, err)
		return 2
	}
	var rf replayFile
	if err := json.Unmarshal(data, &rf); err != nil {
		fmt.Fprintln(os.Stderr, err)
		return 2
	}
	c, err := readCfg(rf.Property)
	if err != nil {
		fmt.Fprintln(os.Stderr, err)
		return 2
	}
	h, err := harnessFor(rf.Property, c)
	if err != nil {
		fmt.Fprintln(os.Stderr, err)
		return 2
	}
	extra, _, err := srcOverlays(c)
	if err != nil {
		fmt.Fprintln(os.Stderr, err)
		return 2
	}
	// harness names: parse from files (cheap: look for "func H_")
	var names []string
	for _, real := range h.Files {
		src, _ := os.ReadFile(real)
		for _, line := range strings.Split(string(src), "\n") {
			if strings.HasPrefix(line, "func H_") {
				n := strings.TrimPrefix(line, "func ")
				if i := strings.Index(n, "("); i > 0 {
					names = append(names, n[:i])
				}
			}
		}
	}
	sort.Strings(names)
	abs, _ := filepath.Abs(args[0])
	out, verdict := nativeReplay(h, c, names, rf.Harness, abs, extra)
	fmt.Println(lastLines(out, 15))
	fmt.Printf("replay of %s (%s): %s — %s\n", rf.Harness, rf.Summary, verdict, rf.Msg)
	if verdict == "FAIL" || verdict == "PANIC" {
		fmt.Printf("VIOLATION property=%s replay=%s\n", rf.Property, abs)
		return 1
	}
	return 0
}

func writeReplayTmp(prop, harness string, v vexec.Violation, params map[string]int) string {
	rf := replayFile{Property: prop, Harness: harness, Kind: v.Kind, Msg: v.Msg, Inputs: v.Inputs, Params: params, Summary: summarize(v)}
	data, _ := json.MarshalIndent(rf, "", " ")
	f, err := os.CreateTemp("", "vxwitness*.json")
	if err != nil {
		return ""
	}
	f.Write(data)
	f.Close()
	return f.Name()
}

// cmdExtract: vx extract <Cxx> -setup S_name [-param k=v ...] -o out.json
func cmdExtract(args []string) int {
	if len(args) < 1 {
		fmt.Fprintln(os.Stderr, "usage: vx extract <Cxx> -setup S_name -o out.json [-param k=v]")
		return 2
	}
	prop := args[0]
	fs := flag.NewFlagSet("extract", flag.ExitOnError)
	setup := fs.String("setup", "", "setup harness function")
	out := fs.String("o", "", "output file")
	var params multiFlag
	fs.Var(&params, "param", "k=v (repeatable)")
	fs.Parse(args[1:])
	c, err := readCfg(prop)
	if err != nil {
		fmt.Fprintln(os.Stderr, "vx:", err)
		return 2
	}
	h, err := harnessFor(prop, c)
	if err != nil {
		fmt.Fprintln(os.Stderr, "vx:", err)
		return 2
	}
	extra, ovNotes, err := srcOverlays(c)
	if err != nil {
		fmt.Fprintln(os.Stderr, "vx:", err)
		return 2
	}
	prog, pkg, err := load.Load(h, filepath.Join(verifDir, "rt"), extra)
	if err != nil {
		fmt.Fprintln(os.Stderr, "vx: load:", err)
		return 2
	}
	fn := pkg.Func(*setup)
	if fn == nil {
		fmt.Fprintf(os.Stderr, "vx: setup function %s not found\n", *setup)
		return 2
	}
	pm := map[string]int{}
	for _, kv := range params {
		var k string
		var v int
		parts := strings.SplitN(kv, "=", 2)
		if len(parts) == 2 {
			k = parts[0]
			fmt.Sscan(parts[1], &v)
			pm[k] = v
		}
	}
	cfg := &vexec.Config{MaxSteps: 2000000, MaxIter: 5000, MaxDepth: 200, Workers: 1, Params: pm}
	ts, st := vexec.ExtractTS(prog, cfg, fn)
	ts.Notes = append(ts.Notes, ovNotes...)
	for k, v := range st.Unsupported {
		ts.Notes = append(ts.Notes, fmt.Sprintf("UNSUPPORTED x%d: %s", v, k))
	}
	for k, v := range st.Limits {
		ts.Notes = append(ts.Notes, fmt.Sprintf("LIMIT x%d: %s", v, k))
	}
	for k, v := range st.Ends {
		ts.Notes = append(ts.Notes, fmt.Sprintf("END x%d: %s", v, k))
	}
	data, _ := json.MarshalIndent(ts, "", " ")
	if *out == "" {
		os.Stdout.Write(data)
	} else if err := os.WriteFile(*out, data, 0o644); err != nil {
		fmt.Fprintln(os.Stderr, err)
		return 2
	}
	if len(st.Unsupported) > 0 || len(st.Limits) > 0 {
		return 3
	}
	return 0
}

type multiFlag []string

func (m *multiFlag) String() string     { return strings.Join(*m, ",") }
func (m *multiFlag) Set(v string) error { *m = append(*m, v); return nil }

var confirmCache = map[string][2]string{}

// nativeConfirm runs the property's native confirmation test (optionally under the race detector)
// against /repo's working tree: FAIL if it fails or reports a data race.
func nativeConfirm(prop string, c *CheckCfg, extra map[string][]byte) (string, string) {
	if r, ok := confirmCache[prop]; ok {
		return r[0], r[1]
	}
	tmp, err := os.MkdirTemp("", "vxconfirm")
	if err != nil {
		return err.Error(), "ERROR"
	}
	defer os.RemoveAll(tmp)
	src, err := os.ReadFile(filepath.Join(verifDir, "harness", prop, c.NativeConfirm.File))
	if err != nil {
		return err.Error(), "ERROR"
	}
	repl := map[string]string{}
	real := filepath.Join(tmp, "zz_vx_confirm_test.go")
	os.WriteFile(real, src, 0o644)
	repl[filepath.Join("/repo", c.Dir, "zz_vx_confirm_test.go")] = real
	i := 0
	for virt, data := range extra {
		rp := filepath.Join(tmp, fmt.Sprintf("ov%d.go", i))
		i++
		os.WriteFile(rp, data, 0o644)
		repl[virt] = rp
	}
	oj, _ := json.Marshal(map[string]interface{}{"Replace": repl})
	ovPath := filepath.Join(tmp, "overlay.json")
	os.WriteFile(ovPath, oj, 0o644)
	args := []string{"300", "go", "test", "-vet=off", "-count=1", "-run", "^" + c.NativeConfirm.Test + "$", "-overlay", ovPath}
	if c.NativeConfirm.Race {
		args = append(args, "-race")
	}
	args = append(args, "./"+c.Dir)
	cmd := exec.Command("timeout", args...)
	cmd.Dir = "/repo"
	cmd.Env = append(os.Environ(), "GOFLAGS=-mod=mod", "GOPROXY=off", "GOSUMDB=off", "GOTOOLCHAIN=local")
	outb, err := cmd.CombinedOutput()
	out := string(outb)
	verdict := "PASS"
	if err != nil || strings.Contains(out, "DATA RACE") || strings.Contains(out, "VX-NATIVE") {
		verdict = "FAIL"
	}
	var keep []string
	for _, l := range strings.Split(out, "\n") {
		if strings.Contains(l, "DATA RACE") || strings.Contains(l, "VX-NATIVE") || strings.Contains(l, ".go:") && len(keep) < 12 {
			keep = append(keep, strings.TrimSpace(l))
		}
	}
	confirmCache[prop] = [2]string{strings.Join(keep, "\n"), verdict}
	return strings.Join(keep, "\n"), verdict
}
