package main

import (
	"fmt"
	_ "golang.org/x/tools/go/packages"
	_ "golang.org/x/tools/go/ssa"
)

func main() { fmt.Println("vx") }
