"""Property specification for the TaskLane protocol (C06, C07, C08, C14) over the transition system
extracted from the real tasklane.go (DESIGN.md B.7). Ghost state is updated on extracted
transitions; invariants are proved by one-step induction, witnesses/violations come from BMC."""
from z3 import *
from ts import parse_smt, bvsum, count

class TaskLaneSpec:
    def __init__(self, L, Q, N):
        self.L, self.Q, self.N = L, Q, N

    # ---- ghost state
    def ghost_decl(self, m):
        g = {}
        for k in range(self.N):
            g['acc%d' % k] = BoolSort()      # task k was enqueued by its PushTask call
            g['rej%d' % k] = BoolSort()      # PushTask(k) returned an error
            g['st%d' % k] = BitVecSort(2)    # number of Start(k) entries (saturating)
            g['pan%d' % k] = BoolSort()      # task k panicked
            g['late%d' % k] = BoolSort()     # PushTask(k) began after the context was cancelled
            g['begun%d' % k] = BoolSort()    # PushTask(k) has begun
        g['run'] = BitVecSort(8)             # tasks currently inside Start()
        g['bad'] = BoolSort()                # an observation contradicted the ghost state
        g['waited'] = BoolSort()
        g['startafterwait'] = BoolSort()
        for pi in range(len(m.procs)):
            if self.role(m, pi) == 'status':
                g['need_p%d' % pi] = BoolSort()   # when this Status() call read the last-panic slot, a panic had been handled completely
        return g

    def ghost_init(self, m, s):
        f = []
        for n, v in s['g'].items():
            if is_bool(v): f.append(Not(v))
            else: f.append(v == 0)
        return f

    def done_chan(self, m):
        return [c['id'] for c in m.ts['chans'] if c['elem'] == 'unit'][0]

    def cancelled(self, m, s):
        return s['closed'][self.done_chan(m)]

    def role(self, m, pi):
        n = m.procs[pi]['name']
        for r in ('startQueue', 'startWorker', 'producer', 'canceller', 'status', 'waiter'):
            if n.startswith(r): return r
        return n

    def on_transition(self, m, pi, tr, s, st):
        ev = tr['ev']; g = s['g']; upd = {}
        role = self.role(m, pi)
        if role == 'producer':
            if ev['kind'] == 'select' and ev['outcome'] >= 0:
                cs = ev['cases'][ev['outcome']]
                if cs['dir'] == 'send' and cs['val']['kind'] == 'tok':
                    upd['acc%d' % cs['val'].get('tok', 0)] = BoolVal(True)
            if ev['kind'] == 'obs' and ev['name'] == 'call':
                k = int(parse_smt(ev['args'][0]['smt'], {}).as_long())
                upd['begun%d' % k] = BoolVal(True)
                upd['late%d' % k] = self.cancelled(m, s)
            if ev['kind'] == 'obs' and ev['name'] == 'push':
                k = int(parse_smt(ev['args'][0]['smt'], {}).as_long())
                code = int(parse_smt(ev['args'][2]['smt'], {}).as_long())
                if code == 0:
                    upd['bad'] = Or(g['bad'], Not(g['acc%d' % k]), g['late%d' % k])
                else:
                    upd['rej%d' % k] = BoolVal(True)
                    upd['bad'] = Or(g['bad'], g['acc%d' % k], And(g['late%d' % k], BoolVal(code != 1)))
        if ev['kind'] == 'start_enter':
            tokv = m.val(ev['val'], s, pi)
            for k in range(self.N):
                c = g['st%d' % k]
                upd['st%d' % k] = If(tokv == k, If(c == 3, c, c + 1), c)
            upd['run'] = g['run'] + 1
            upd['startafterwait'] = Or(g['startafterwait'], g['waited'])
        if ev['kind'] == 'start_exit':
            upd['run'] = g['run'] - 1
            if ev['outcome'] == 1:
                tokv = m.val(ev['val'], s, pi)
                for k in range(self.N):
                    upd['pan%d' % k] = Or(g['pan%d' % k], tokv == k)
        if ev['kind'] == 'obs' and ev['name'] == 'waited':
            upd['waited'] = BoolVal(True)
        if role == 'status' and ev['kind'] == 'load' and ev['cell'] == self.panic_cell(m):
            upd['need_p%d' % pi] = And(Or(*[g['pan%d' % k] for k in range(self.N)]), Not(self.recording(m, s)))
        if ev['kind'] == 'obs' and ev['name'] == 'status':
            pend = m.val(ev['args'][0], s, pi)
            lp = m.val(ev['args'][1], s, pi)
            okp = ULE(pend, self.L * (self.Q + 1))
            oklp = lp == 0
            if ('need_p%d' % pi) in g:
                # a panic that was handled completely before the slot was read is reported (LastPanic is not nil)
                okp = And(okp, Implies(g['need_p%d' % pi], lp != 0))
            for k in range(self.N):
                oklp = Or(oklp, And(lp == k + 1, g['pan%d' % k]))
            upd['bad'] = Or(g['bad'], Not(okp), Not(oklp))
        return upd

    # ---- location classes computed from the automaton
    def worker_running_locs(self, m, pi):
        """locations of a worker between start_enter and start_exit"""
        return {t['from'] for t in m.procs[pi]['trans'] if t['ev']['kind'] == 'start_exit'}

    def exited(self, m, s, pi):
        p = m.procs[pi]
        return Or(s['pc'][pi] == p['exit'], s['pc'][pi] == p.get('crash', p['exit']) if p.get('crash') else s['pc'][pi] == p['exit'])

    # ---- last-panic slot: which cell, and where a worker is between a task's panic and the end of its recover handler
    def panic_cell(self, m):
        if not hasattr(self, '_pcell'):
            self._pcell = None
            for pi, p in enumerate(m.procs):
                if self.role(m, pi) != 'startWorker': continue
                for l in self.recover_locs(m, pi)[0]:
                    for t in p['trans']:
                        if t['from'] == l and t['ev']['kind'] == 'store' and m.cells.get(t['ev']['cell'], {}).get('kind') == 'plain':
                            self._pcell = t['ev']['cell']
            if self._pcell is None:   # no store in any recover handler: the slot is whatever Status() loads
                for pi, p in enumerate(m.procs):
                    if self.role(m, pi) == 'status':
                        for t in p['trans']:
                            if t['ev']['kind'] == 'load' and m.cells.get(t['ev']['cell'], {}).get('kind') == 'plain': self._pcell = t['ev']['cell']
        return self._pcell

    def recover_locs(self, m, pi):
        """(section, stored): locations of a worker after a task panicked and before it is back at a select (loop head);
        stored = those of them that every path reaches only after a plain store (the slot has been written)"""
        key = ('rec', pi)
        if not hasattr(self, '_rec'): self._rec = {}
        if key in self._rec: return self._rec[key]
        p = m.procs[pi]
        heads = {t['from'] for t in p['trans'] if t['ev']['kind'] == 'select'}
        val = {}   # loc -> set of {False, True} (stored on the way?)
        work = []
        for t in p['trans']:
            if t['ev']['kind'] == 'start_exit' and t['ev']['outcome'] == 1:
                work.append((t['to'], False))
        while work:
            l, st = work.pop()
            if l in heads or l == p.get('exit'): continue
            if st in val.setdefault(l, set()): continue
            val[l].add(st)
            for t in p['trans']:
                if t['from'] == l:
                    work.append((t['to'], st or (t['ev']['kind'] == 'store' and m.cells.get(t['ev']['cell'], {}).get('kind') == 'plain')))
        section = set(val)
        stored = {l for l, v in val.items() if v == {True}}
        self._rec[key] = (section, stored)
        return self._rec[key]

    def locs_after(self, m, pi, start):
        """locations of process pi reachable from start without passing its init again"""
        p = m.procs[pi]; seen = set(); work = [start]
        while work:
            l = work.pop()
            if l in seen: continue
            seen.add(l)
            work += [t['to'] for t in p['trans'] if t['from'] == l]
        return seen

    def recording(self, m, s):
        """some worker is inside its recover section and has not written the slot yet"""
        out = []
        for pi in range(len(m.procs)):
            if self.role(m, pi) != 'startWorker': continue
            sec, stored = self.recover_locs(m, pi)
            out += [s['pc'][pi] == l for l in sec - stored]
        return Or(*out) if out else BoolVal(False)

    def lane_procs(self, m):
        return [i for i in range(len(m.procs)) if self.role(m, i) in ('startQueue', 'startWorker')]

    def counter_locs(self, m, pi):
        """(must, may): locations of a queue goroutine where its +1 on blockingTaskCnt is outstanding on
        every / on some path (a goroutine that exits while holding a task never decrements)"""
        p = m.procs[pi]
        def delta(ev):
            if ev['kind'] == 'atomic' and ev['op'] == 'add':
                return 1 if parse_smt(ev['val']['smt'], {}).as_long() == 1 else -1
            return 0
        # forward data flow of the set of possible outstanding counts {0,1}
        vals = {l: set() for l in range(p['nlocs'])}
        vals[p['init']].add(0)
        ch = True
        while ch:
            ch = False
            for t in p['trans']:
                for v in list(vals[t['from']]):
                    nv = v + delta(t['ev'])
                    if nv not in vals[t['to']]:
                        vals[t['to']].add(nv); ch = True
        must = {l for l, vs in vals.items() if vs == {1}}
        may = {l for l, vs in vals.items() if 1 in vs}
        return must, may

    # ---- invariant
    def inv(self, m, s):
        g = s['g']; f = [m.wellformed(s), Not(g['bad'])]
        if any(n.startswith('need_p') for n in g) and self.panic_cell(m) is not None:
            # once a task has panicked, the slot is written or a worker is still on its way to write it
            cell = s['cell'][self.panic_cell(m)]
            f.append(Implies(Or(*[g['pan%d' % k] for k in range(self.N)]), Or(cell != 0, self.recording(m, s))))
            for n in g:
                if n.startswith('need_p'):
                    pi = int(n[6:])
                    # a Status() call that has read the slot under that condition holds a non-nil value
                    for t in m.procs[pi]['trans']:
                        if t['ev']['kind'] == 'load' and t['ev']['cell'] == self.panic_cell(m) and t['ev'].get('res') in s['v'][pi]:
                            reg = s['v'][pi][t['ev']['res']]
                            after = self.locs_after(m, pi, t['to'])
                            f.append(Implies(And(g[n], Or(*[s['pc'][pi] == l for l in after])), reg != 0))
        canc = self.cancelled(m, s)
        for k in range(self.N):
            occ = m.occ(s, k)
            stk = ZeroExt(6, g['st%d' % k])
            f += [ULE(g['st%d' % k], 1),
                  Implies(Not(g['acc%d' % k]), And(occ == 0, stk == 0)),
                  ULE(occ + stk, 1),
                  Implies(And(g['acc%d' % k], Not(canc)), occ + stk == 1),
                  Not(And(g['acc%d' % k], g['rej%d' % k])),
                  Implies(g['pan%d' % k], g['st%d' % k] == 1),
                  Implies(g['late%d' % k], And(canc, g['begun%d' % k], Not(g['acc%d' % k])))]
        # run = number of workers inside Start()
        conds = []
        for pi in range(len(m.procs)):
            if self.role(m, pi) == 'startWorker':
                rl = self.worker_running_locs(m, pi)
                conds.append(Or(*[s['pc'][pi] == l for l in rl]))
        f.append(g['run'] == count(conds))
        # the WaitGroup counts the lane goroutines that have not called Done yet; blockingTaskCnt counts
        # the queue goroutines between their +1 and -1
        for n, c in m.cells.items():
            if c['kind'] == 'wg':
                alive = []
                for pi in self.lane_procs(m):
                    p = m.procs[pi]
                    post = {t['to'] for t in p['trans'] if t['ev']['kind'] == 'wgdone'}
                    alive.append(Not(Or(*[s['pc'][pi] == l for l in post])))
                f.append(s['cell'][n] == ZeroExt(s['cell'][n].size() - 8, count(alive)))
            if c['kind'] == 'atomic':
                lo, hi = [], []
                for pi in range(len(m.procs)):
                    if self.role(m, pi) == 'startQueue':
                        must, may = self.counter_locs(m, pi)
                        lo.append(Or(*[s['pc'][pi] == l for l in must]) if must else BoolVal(False))
                        hi.append(Or(*[s['pc'][pi] == l for l in may]) if may else BoolVal(False))
                v = s['cell'][n]
                ext = lambda x: ZeroExt(v.size() - 8, x)
                f.append(And(ULE(ext(count(lo)), v), ULE(v, ext(count(hi)))))
        # exits happen only after cancellation
        for pi in self.lane_procs(m):
            p = m.procs[pi]
            post = {t['to'] for t in p['trans'] if t['ev']['kind'] == 'wgdone'} | {t['from'] for t in p['trans'] if t['ev']['kind'] == 'wgdone'}
            f.append(Implies(Or(*[s['pc'][pi] == l for l in post]), canc))
        f.append(Implies(g['waited'], And(*[s['cell'][n] == 0 for n, c in m.cells.items() if c['kind'] == 'wg'])))
        f.append(Not(g['startafterwait']))
        f += self.location_facts(m, s)
        f += self.past_default_facts(m, s)
        f += self.worker_facts(m, s)
        f += self.status_facts(m, s)
        return And(*f)

    def must_since(self, p, trans, gen, kill):
        """locations at which, on every path, a gen-transition happened after the last kill-transition"""
        val = {l: None for l in range(p['nlocs'])}
        val[p['init']] = False
        ch = True
        while ch:
            ch = False
            for t in trans:
                if val[t['from']] is None: continue
                v = val[t['from']]
                if kill(t['ev']): v = False
                if gen(t['ev']): v = True
                nv = v if val[t['to']] is None else (val[t['to']] and v)
                if val[t['to']] is None or nv != val[t['to']]:
                    val[t['to']] = nv; ch = True
        return {l for l, v in val.items() if v}

    def worker_facts(self, m, s):
        """a worker inside Start() runs a task that was started once; between a panic and the write of
        lastPanic it holds the token of a task that panicked; lastPanic is nil or a recorded panic value"""
        f = []
        g = s['g']
        for pi, p in enumerate(m.procs):
            if self.role(m, pi) != 'startWorker': continue
            regs = {t['ev']['val']['reg'] for t in p['trans'] if t['ev']['kind'] == 'start_enter' and t['ev']['val']['kind'] == 'reg'}
            for r in regs:
                running = {t['from'] for t in p['trans'] if t['ev']['kind'] == 'start_exit' and t['ev']['val'].get('reg') == r}
                rv = s['v'][pi][r]
                for l in running:
                    f.append(Implies(s['pc'][pi] == l, And(ULT(rv, self.N), m.sel([g['st%d' % k] for k in range(self.N)], rv) == 1)))
                pan = self.must_since(p, p['trans'],
                                      lambda ev, r=r: ev['kind'] == 'start_exit' and ev['outcome'] == 1 and ev['val'].get('reg') == r,
                                      lambda ev, r=r: (ev['kind'] == 'start_enter') or (ev['kind'] == 'select' and ev['outcome'] >= 0 and ev['cases'][ev['outcome']].get('res') == r))
                for l in pan:
                    f.append(Implies(s['pc'][pi] == l, And(ULT(rv, self.N), m.sel([g['pan%d' % k] for k in range(self.N)], rv))))
        for n, c in m.cells.items():
            if c['w'] == 0 and any(t['ev']['kind'] == 'store' and t['ev']['cell'] == n and t['ev']['val']['kind'] == 'pval' for p in m.procs for t in p['trans']):
                v = s['cell'][n]
                f.append(Or(v == 0, *[And(v == k + 1, g['pan%d' % k]) for k in range(self.N)]))
        return f

    def status_facts(self, m, s):
        """values read by Status(): a channel length is at most the capacity, the counter at most laneSize,
        the last-panic slot holds nil or a recorded panic value (all stable under later steps)"""
        f = []
        g = s['g']
        for pi, p in enumerate(m.procs):
            for t in p['trans']:
                ev = t['ev']
                if ev['kind'] not in ('len', 'atomic', 'load') or not ev.get('res'): continue
                if ev['kind'] == 'atomic' and (self.role(m, pi) != 'status' or ev['op'] != 'load'): continue
                if ev['kind'] == 'load' and m.cells[ev['cell']]['w'] != 0: continue
                r = ev['res']
                locs = self.must_since(p, p['trans'], lambda e2, r=r: e2.get('res') == r and e2['kind'] == ev['kind'], lambda e2: False)
                rv = s['v'][pi][r]
                for l in locs:
                    if ev['kind'] == 'len':
                        f.append(Implies(s['pc'][pi] == l, ULE(rv, m.chans[ev['chan']]['cap'])))
                    elif ev['kind'] == 'atomic':
                        f.append(Implies(s['pc'][pi] == l, ULE(rv, self.L)))
                    else:
                        if any(t2['ev']['kind'] == 'store' and t2['ev']['cell'] == ev['cell'] and t2['ev']['val']['kind'] == 'pval' for q in m.procs for t2 in q['trans']):
                            f.append(Implies(s['pc'][pi] == l, Or(rv == 0, *[And(rv == k + 1, g['pan%d' % k]) for k in range(self.N)])))
        return f

    def past_default_facts(self, m, s):
        """must-analysis: at a location all of whose paths since `call k` took the `default` of a non-blocking
        look at ctx.Done(), the call did not begin after cancellation (closed channels stay closed)"""
        f = []
        done = self.done_chan(m)
        for pi, p in enumerate(m.procs):
            if self.role(m, pi) != 'producer': continue
            trans = m.live_trans(pi)
            for k in range(self.N):
                def is_call(ev):
                    return ev['kind'] == 'obs' and ev['name'] == 'call' and parse_smt(ev['args'][0]['smt'], {}).as_long() == k
                def is_default(ev):
                    return ev['kind'] == 'select' and not ev.get('blocking') and ev['outcome'] == -1 and any(cs['chan'] == done for cs in ev['cases'])
                if not any(is_call(t['ev']) for t in trans):
                    continue  # task k is pushed by another producer: this process says nothing about late_k
                val = {l: None for l in range(p['nlocs'])}   # None unreached; True/False = "default passed since call k" on all paths
                val[p['init']] = False
                ch = True
                while ch:
                    ch = False
                    for t in trans:
                        if val[t['from']] is None: continue
                        v = val[t['from']]
                        if is_call(t['ev']): v = False
                        elif is_default(t['ev']): v = True
                        nv = v if val[t['to']] is None else (val[t['to']] and v)
                        if val[t['to']] is None or nv != val[t['to']]:
                            val[t['to']] = nv; ch = True
                for l, v in val.items():
                    if v: f.append(Implies(s['pc'][pi] == l, Not(s['g']['late%d' % k])))
        return f

    def location_facts(self, m, s):
        """must/may analysis of the producer automata for the ghosts they own (acc_k, begun_k)"""
        f = []
        for pi, p in enumerate(m.procs):
            if self.role(m, pi) != 'producer': continue
            for k in range(self.N):
                def sets_acc(ev):
                    return ev['kind'] == 'select' and ev['outcome'] >= 0 and ev['cases'][ev['outcome']]['dir'] == 'send' and ev['cases'][ev['outcome']]['val'].get('kind') == 'tok' and ev['cases'][ev['outcome']]['val'].get('tok', 0) == k
                def sets_begun(ev):
                    return ev['kind'] == 'obs' and ev['name'] == 'call' and parse_smt(ev['args'][0]['smt'], {}).as_long() == k
                def sets_rej(ev):
                    return ev['kind'] == 'obs' and ev['name'] == 'push' and parse_smt(ev['args'][0]['smt'], {}).as_long() == k and parse_smt(ev['args'][2]['smt'], {}).as_long() != 0
                for gname, pred in (('acc%d' % k, sets_acc), ('begun%d' % k, sets_begun), ('rej%d' % k, sets_rej)):
                    owners = [q for q in range(len(m.procs)) if any(pred(t['ev']) for t in m.procs[q]['trans'])]
                    if owners != [pi]: continue
                    may, must = self.may_must(p, pred, m.live_trans(pi))
                    for l in range(p['nlocs']):
                        if l in must: f.append(Implies(s['pc'][pi] == l, s['g'][gname]))
                        elif l not in may: f.append(Implies(s['pc'][pi] == l, Not(s['g'][gname])))
        return f

    def may_must(self, p, pred, trans=None):
        n = p['nlocs']
        p = dict(p); p['trans'] = trans if trans is not None else p['trans']
        may = set(); must = set(range(n)) - {p['init']}
        ch = True
        while ch:
            ch = False
            for t in p['trans']:
                hit = pred(t['ev'])
                if (hit or t['from'] in may) and t['to'] not in may:
                    may.add(t['to']); ch = True
        ch = True
        preds = {l: [t for t in p['trans'] if t['to'] == l] for l in range(n)}
        while ch:
            ch = False
            for l in list(must):
                ok = bool(preds[l]) and all(pred(t['ev']) or t['from'] in must for t in preds[l])
                if not ok:
                    must.discard(l); ch = True
        return may, must

    # ---- safety predicates (must be implied by the invariant)
    def safe_c06(self, m, s):
        g = s['g']
        return And(Not(g['bad']), *[And(ULE(g['st%d' % k], 1), Implies(g['rej%d' % k], g['st%d' % k] == 0)) for k in range(self.N)])

    def safe_c14(self, m, s):
        """C06's safety plus: once a task's panic has been handled completely the last-panic slot is not nil
        (a Status() call from then on reports one of the panics)"""
        f = [self.safe_c06(m, s)]
        if self.panic_cell(m) is not None:
            f.append(Implies(Or(*[s['g']['pan%d' % k] for k in range(self.N)]), Or(s['cell'][self.panic_cell(m)] != 0, self.recording(m, s))))
        return And(*f)

    def safe_c07(self, m, s):
        g = s['g']
        return And(Not(g['bad']), Not(g['startafterwait']), *[Implies(g['late%d' % k], Not(g['acc%d' % k])) for k in range(self.N)])

    def safe_c08(self, m, s):
        return ULE(s['g']['run'], self.L)

    def internal_steps(self, m):
        """steps of the lane goroutines (including rendezvous among them or with producers)"""
        lane = set(self.lane_procs(m))
        return [st for st in m.steps if st['p'] in lane or st.get('q') in lane]
