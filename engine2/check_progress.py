#!/usr/bin/env python3
"""check_progress.py <quick|thorough>: C19, concurrent part. The writer goroutine (k x Write, then Close) is
extracted from the real ProgressWriter SSA; the consumer is the environment: it may receive at any step,
start late, or not receive until Close. Decided by BMC to completion plus a non-blocking obligation."""
import sys, os, json, subprocess, time
sys.path.insert(0, os.path.dirname(os.path.abspath(__file__)))
from z3 import *
from ts import Model, Checker, parse_smt

class Spec:
    def ghost_decl(self, m):
        return {'last': BitVecSort(64), 'nrecv': BitVecSort(8), 'bad_mono': BoolSort(), 'bad_val': BoolSort(), 'bad_end': BoolSort(), 'ended': BoolSort(), 'writerclosed': BoolSort()}
    def ghost_init(self, m, s):
        return [s['g']['last'] == 0, s['g']['nrecv'] == 0] + [Not(s['g'][n]) for n in ('bad_mono', 'bad_val', 'bad_end', 'ended', 'writerclosed')]
    def on_transition(self, m, pi, tr, s, st):
        g = s['g']; ev = tr['ev']; upd = {}
        if m.procs[pi]['name'] == 'consumer' and ev['kind'] == 'select':
            if ev['outcome'] == 0 and st['kind'] == 'rdv':
                # value handed over by the writer in this rendezvous
                wp = st['p']; wt = m.procs[wp]['trans'][st['t']]
                v = m.val(wt['ev']['cases'][wt['ev']['outcome']]['val'], s, wp)
                size = s['cell'][self.size_cell(m)]
                upd['bad_mono'] = Or(g['bad_mono'], ULT(v, g['last']))
                upd['bad_val'] = Or(g['bad_val'], v != size)      # equals Size() after the write that sent it
                upd['last'] = v
                upd['nrecv'] = g['nrecv'] + 1
            if ev['outcome'] == -2:
                upd['ended'] = BoolVal(True)
                # the channel is closed only by Close(), whose blocking send the consumer took: last == final total
                upd['bad_end'] = Or(g['bad_end'], g['last'] != s['cell'][self.size_cell(m)])
        if ev['kind'] == 'obs' and ev['name'] == 'closed':
            upd['writerclosed'] = BoolVal(True)
        return upd
    def size_cell(self, m):
        return [n for n, c in m.cells.items() if c['kind'] == 'plain' and c['w'] == 64][0]

def main():
    tier = sys.argv[1] if len(sys.argv) > 1 else 'quick'
    writes = 2
    wbytes = 1 if tier != 'thorough' else 2
    out = '/tmp/vx_ts_C19_%d.json' % os.getpid()
    r = subprocess.run(['/verif/bin/vx', 'extract', 'C19', '-setup', 'S_progress', '-param', 'writes=%d' % writes, '-param', 'wbytes=%d' % wbytes, '-o', out], capture_output=True, text=True)
    ts = json.load(open(out)); os.remove(out)
    unsupported = [n for n in (ts.get('notes') or []) if 'UNSUPPORTED' in n]
    if unsupported or not ts.get('chans'):
        # the (changed) ProgressWriter left the fragment Engine 2 can extract: nothing is settled by the solver;
        # the native consumer scenarios decide, and only a scenario failing on the real runtime is a violation
        return fallback('extraction: ' + '; '.join(unsupported or ['no channel found in the extracted writer']))
    try:
        return solve(ts, tier, writes, wbytes)
    except SystemExit:
        raise
    except Exception as ex:
        import traceback; traceback.print_exc()
        return fallback('encoder raised %s: %s' % (type(ex).__name__, ex))

def native_scenarios():
    """runs harness/C19/native_test.go.txt against /repo's working tree; returns (log lines, failed)"""
    import tempfile, shutil
    tmp = tempfile.mkdtemp(prefix='vxnat')
    try:
        real = os.path.join(tmp, 'zz_vx_native_test.go')
        open(real, 'w').write(open('/verif/harness/C19/native_test.go.txt').read())
        ov = os.path.join(tmp, 'overlay.json')
        json.dump({'Replace': {'/repo/util/ioutil/zz_vx_native_test.go': real}}, open(ov, 'w'))
        env = dict(os.environ, GOFLAGS='-mod=mod', GOPROXY='off', GOSUMDB='off', GOTOOLCHAIN='local')
        r = subprocess.run(['timeout', '300', 'go', 'test', '-vet=off', '-count=1', '-run', '^TestVxC19', '-overlay', ov, './util/ioutil'],
                           cwd='/repo', env=env, capture_output=True, text=True)
        lines = (r.stdout + r.stderr).splitlines()
        keep = [l.strip() for l in lines if 'VX-NATIVE' in l or 'panic:' in l or l.startswith('--- FAIL')]
        return keep, (r.returncode != 0 and any('VX-NATIVE' in l or 'panic:' in l for l in lines))
    finally:
        shutil.rmtree(tmp, ignore_errors=True)

def fallback(reason):
    print('  INCONCLUSIVE concurrent part not settled by the solver (%s); running native consumer scenarios TestVxC19Consumers' % reason[:300])
    log, failed = native_scenarios()
    evp = '/verif/evidence/C19.json'
    ev = json.load(open(evp))
    ev['coverage'].setdefault('inconclusive', []).append('concurrent part: ' + reason[:300] + '; native scenarios ' + ('FAILED' if failed else 'passed'))
    code = 0
    if failed:
        path = '/verif/replays/C19/native-scenarios.log'
        os.makedirs('/verif/replays/C19', exist_ok=True)
        open(path, 'w').write('go test -run ^TestVxC19 ./util/ioutil with harness/C19/native_test.go.txt as zz_vx_native_test.go\n' + '\n'.join(log) + '\n')
        print('  violation confirmed natively: ' + (log[0] if log else 'TestVxC19Consumers failed'))
        print('VIOLATION property=C19 replay=' + path)
        ev['violations'] = ev.get('violations', 0) + 1
        code = 1
    else:
        print('  NOTE native scenarios pass; claim for the concurrent part reduced to them on this tree')
    json.dump(ev, open(evp, 'w'), indent=1, default=str)
    sys.exit(code)

def solve(ts, tier, writes, wbytes):
    ch = ts['chans'][0]['id']
    ts['procs'].append({'name': 'consumer', 'fn': 'environment (engine2/check_progress.py)', 'init': 0, 'nlocs': 2, 'exit': 1, 'crash': 0, 'vars': {'v': 64}, 'runs': 0, 'merged': 0,
                        'trans': [{'from': 0, 'to': 0, 'ev': {'kind': 'select', 'blocking': True, 'commaok': True, 'outcome': 0, 'cases': [{'dir': 'recv', 'chan': ch, 'res': 'v'}]}},
                                  {'from': 0, 'to': 1, 'ev': {'kind': 'select', 'blocking': True, 'commaok': True, 'outcome': -2, 'cases': [{'dir': 'recv', 'chan': ch, 'res': 'v'}]}}]})
    spec = Spec()
    m = Model(ts, spec)
    ck = Checker(m, timeout_ms=600000)
    res = {'notes': ts.get('notes') or []}
    violations = []
    K = 8 * writes + 6
    bad = lambda s: Or(s['g']['bad_mono'], s['g']['bad_val'], s['g']['bad_end'])
    r, tr = ck.bmc(K, bad, 'bmc: received values monotone, equal Size(), last one is the total')
    if r == sat: violations.append(('received value not monotone / not a prefix sum / last value is not the total', tr))
    # completion witness: writer closed and consumer saw the end (all steps fit into K)
    rw, trw = ck.bmc(K, lambda s: And(s['g']['writerclosed'], s['g']['ended']), 'witness: run to completion')
    # the consumer can also stay away until Close: witness with zero receptions before the writer reaches Close
    wp = 0
    closeloc = [t['from'] for t in m.procs[wp]['trans'] if t['ev']['kind'] == 'select' and t['ev'].get('blocking')][0]
    r0, tr0 = ck.bmc(K, lambda s: And(s['pc'][wp] == closeloc, s['g']['nrecv'] == 0), 'witness: consumer absent until Close')
    # Write never blocks: at every writer location before Close's blocking send some writer transition is enabled
    # whatever the consumer does (here: even with the consumer not at its receive)
    s = m.state('nb')
    blocked = []
    for l in range(m.procs[wp]['nlocs']):
        outs = [st for st in m.steps if st['p'] == wp and m.procs[wp]['trans'][st['t']]['from'] == l and st['kind'] == 'solo']
        if not outs or l == closeloc or l == m.procs[wp]['exit']: continue
        rr, mod = ck.solve([m.wellformed(s), s['pc'][wp] == l, And(*[Not(m.enabled(st, s)) for st in outs])], 'non-blocking: writer location %d always has an enabled step of its own' % l)
        if rr != unsat: blocked.append(l)
    if blocked:
        violations.append(('Write can block: writer locations %s have no enabled transition without a consumer' % blocked, []))
    print('writes=%d: writer locations %d, steps %d, BMC depth %d: safety %s, completion witness %s (%d steps), absent-consumer witness %s, blocked locations %s, solver %.1fs' % (
        writes, m.procs[wp]['nlocs'], len(m.steps), K, r, rw, len(trw or []), r0, blocked, ck.stats['solver_s']))
    res.update({'states': sum(p['nlocs'] for p in m.procs), 'transitions': len(m.steps), 'obligations': ck.stats['obligations'], 'bmc_depth': K,
                'violations': violations, 'completion_trace': trw, 'funcs': ts['funcs'], 'stubs': ts['stubs'], 'unknown': ck.stats['unknown'], 'queries': ck.stats['queries'], 'solver_s': ck.stats['solver_s'],
                'vacuity_ok': rw == sat and r0 == sat})
    # merge into the evidence file written by the sequential part (vx check C19)
    evp = '/verif/evidence/C19.json'
    ev = json.load(open(evp))
    cov = ev['coverage']
    cov['concurrent_part'] = res
    cov['states'] = cov.get('states', 0) + res['states']
    cov['transitions'] = cov.get('transitions', 0) + res['transitions']
    cov['evaluations'] = cov.get('evaluations', 0) + res['queries']
    cov['samples'].append({'kind': 'BMC witness: writer and consumer run to completion', 'trace': trw})
    ev['assumptions'].append('concurrent part: consumer = environment (may receive at any step or stay away until Close); channel semantics of engine2/ts.py; writes=%d of %d byte(s), BMC to completion depth %d' % (writes, wbytes, K))
    if res['unknown']: cov['inconclusive'] = cov.get('inconclusive', []) + ['concurrent part: %d solver unknown' % res['unknown']]
    code = 0
    for what, tr in violations:
        path = '/verif/replays/C19/trace-concurrent.json'
        os.makedirs('/verif/replays/C19', exist_ok=True)
        json.dump({'what': what, 'trace': tr}, open(path, 'w'), indent=1)
        print('  violation: ' + what)
        print('VIOLATION property=C19 replay=' + path)
        ev['violations'] = ev.get('violations', 0) + 1
        code = 1
    if not res['vacuity_ok']:
        print('  VACUITY-FAILURE: completion / absent-consumer witness not found')
    json.dump(ev, open(evp, 'w'), indent=1, default=str)
    sys.exit(code)

if __name__ == '__main__':
    main()
