#!/usr/bin/env python3
"""check_c02.py <quick|thorough>: C02, schedule part. Three goroutines (root logger, a derived logger, a logger
derived inside its goroutine) run the real Handle of each handler kind against a destination whose Write is
bracketed by observations. The automata (Lock / Write / Unlock ...) are extracted from the SSA; the solver proves
by one-step induction that at most one goroutine is ever inside Write (no two Write calls overlap), that no two
conflicting plain accesses of the destination's state are ever enabled together, and BMC shows every record is
written exactly once when all goroutines have finished."""
import sys, os, json, subprocess, time
sys.path.insert(0, os.path.dirname(os.path.abspath(__file__)))
from z3 import *
from ts import Model, Checker, count

class Spec:
    def ghost_decl(self, m):
        g = {'inw': BitVecSort(8), 'bad': BoolSort()}
        for i in range(len(m.procs)): g['w%d' % i] = BitVecSort(4)
        return g
    def ghost_init(self, m, s):
        return [s['g']['inw'] == 0, Not(s['g']['bad'])] + [s['g']['w%d' % i] == 0 for i in range(len(m.procs))]
    def on_transition(self, m, pi, tr, s, st):
        ev = tr['ev']; g = s['g']; upd = {}
        if ev['kind'] == 'obs' and ev['name'] == 'write_enter':
            upd['bad'] = Or(g['bad'], g['inw'] != 0)
            upd['inw'] = g['inw'] + 1
            upd['w%d' % pi] = g['w%d' % pi] + 1
        if ev['kind'] == 'obs' and ev['name'] == 'write_exit':
            upd['inw'] = g['inw'] - 1
        return upd
    def inside(self, m, pi):
        p = m.procs[pi]; locs = set(); work = [t['to'] for t in p['trans'] if t['ev']['kind'] == 'obs' and t['ev']['name'] == 'write_enter']
        stop = {(t['from'], t['to']) for t in p['trans'] if t['ev']['kind'] == 'obs' and t['ev']['name'] == 'write_exit'}
        while work:
            l = work.pop()
            if l in locs: continue
            locs.add(l)
            work += [t['to'] for t in p['trans'] if t['from'] == l and (t['from'], t['to']) not in stop]
        return locs
    def inv(self, m, s):
        g = s['g']
        ins = [Or(*[s['pc'][pi] == l for l in self.inside(m, pi)]) if self.inside(m, pi) else BoolVal(False) for pi in range(len(m.procs))]
        f = [m.wellformed(s), Not(g['bad']), g['inw'] == count(ins)]
        # a goroutine inside Write holds the mutex (its locations lie in the mutex's held-locations): implied by mutex_facts + this
        for n, c in m.cells.items():
            if c['kind'] == 'mutex':
                for pi in range(len(m.procs)):
                    for l in self.inside(m, pi):
                        f.append(Implies(s['pc'][pi] == l, s['cell'][n] == BitVecVal(-1, s['cell'][n].size())))
        return And(*f)

def native_confirm():
    """runs harness/C02/race_native_test.go.txt (overlapping-Write detector, go test -race) against /repo's working tree"""
    import tempfile, shutil
    tmp = tempfile.mkdtemp(prefix='vxc02')
    try:
        real = os.path.join(tmp, 'zz_vx_race_test.go')
        open(real, 'w').write(open('/verif/harness/C02/race_native_test.go.txt').read())
        ov = os.path.join(tmp, 'overlay.json')
        json.dump({'Replace': {'/repo/logger/zz_vx_race_test.go': real}}, open(ov, 'w'))
        env = dict(os.environ, GOFLAGS='-mod=mod', GOPROXY='off', GOSUMDB='off', GOTOOLCHAIN='local')
        r = subprocess.run(['timeout', '600', 'go', 'test', '-race', '-vet=off', '-count=1', '-run', '^TestVx', '-overlay', ov, './logger'],
                           cwd='/repo', env=env, capture_output=True, text=True)
        lines = (r.stdout + r.stderr).splitlines()
        return [l.strip() for l in lines if 'DATA RACE' in l or 'VX-NATIVE' in l or 'overlap' in l][:6], r.returncode != 0
    finally:
        shutil.rmtree(tmp, ignore_errors=True)

def main():
    tier = sys.argv[1] if len(sys.argv) > 1 else 'quick'
    res = []; violations = []; notes = []; total_q = 0; total_s = 0.0; states = 0; trans = 0; funcs = {}
    for kind, kname in enumerate(['nano', 'text', 'json']):
        out = '/tmp/vx_ts_C02_%d.json' % os.getpid()
        r = subprocess.run(['/verif/bin/vx', 'extract', 'C02', '-setup', 'S_c02', '-param', 'kind=%d' % kind, '-o', out], capture_output=True, text=True)
        ts = json.load(open(out)); os.remove(out)
        funcs.update(ts['funcs'])
        for n in ts.get('notes') or []: notes.append('%s: %s' % (kname, n))
        spec = Spec(); m = Model(ts, spec); ck = Checker(m, timeout_ms=300000)
        states += sum(p['nlocs'] for p in m.procs); trans += len(m.steps)
        inv = lambda s: spec.inv(m, s)
        fails = ck.induct(inv, kname + ':inv')
        # race candidates on the destination's plain state
        acc = [(pi, ti, t['ev']['cell'], t['ev']['kind']) for pi, p in enumerate(m.procs) for ti, t in enumerate(p['trans'])
               if t['ev']['kind'] in ('load', 'store') and m.cells[t['ev']['cell']]['kind'] == 'plain']
        races = []
        sx = m.state('r')
        for i, a in enumerate(acc):
            for b in acc[i + 1:]:
                if a[0] == b[0] or a[2] != b[2] or 'store' not in (a[3], b[3]): continue
                sa = [st for st in m.steps if st['kind'] == 'solo' and st['p'] == a[0] and st['t'] == a[1]][0]
                sb = [st for st in m.steps if st['kind'] == 'solo' and st['p'] == b[0] and st['t'] == b[1]][0]
                r2, mod = ck.solve([inv(sx), m.enabled(sa, sx), m.enabled(sb, sx)], kname + ':race-candidate')
                if r2 != unsat: races.append((m.label(sa), m.label(sb)))
        # completion: all goroutines finished, every record written exactly once
        K = sum(p['nlocs'] for p in m.procs)
        allexit = lambda s: And(*[s['pc'][pi] == p['exit'] for pi, p in enumerate(m.procs)])
        rw, trw = ck.bmc(K, lambda s: allexit(s), kname + ':witness:completion')
        rb, trb = ck.bmc(K, lambda s: And(allexit(s), Or(*[s['g']['w%d' % pi] != 1 for pi in range(len(m.procs))])), kname + ':every record written exactly once')
        print('%s: %d steps, induction failures %d, race candidates %d, completion witness %s, not-exactly-once %s, solver %.1fs' % (
            kname, len(m.steps), len(fails), len(races), rw, rb, ck.stats['solver_s']))
        if fails:
            r3, tr3 = ck.bmc(K, lambda s: s['g']['bad'], kname + ':bmc:overlap')
            if r3 == sat: violations.append(('two Write calls overlap (%s handler)' % kname, tr3))
            else: notes.append('%s: induction failed at %s, no overlapping trace within %d steps' % (kname, fails[0][0], K))
        if races:
            r3, tr3 = ck.bmc(K, lambda s: s['g']['bad'], kname + ':bmc:overlap')
            if r3 == sat: violations.append(('Write calls overlap / destination state raced (%s handler): %s || %s' % (kname, races[0][0], races[0][1]), tr3))
            else: notes.append('%s: race candidate %s || %s not reachable within %d steps' % (kname, races[0][0], races[0][1], K))
        if rb == sat: violations.append(('a record was not written exactly once (%s handler)' % kname, trb))
        if rw != sat: notes.append('%s: VACUITY: no completing run found' % kname)
        total_q += ck.stats['queries']; total_s += ck.stats['solver_s']
        res.append({'handler': kname, 'steps': len(m.steps), 'locations': [p['nlocs'] for p in m.procs], 'obligations': len(ck.stats['obligations']),
                    'unsat': sum(1 for o in ck.stats['obligations'] if o['result'] == 'unsat'), 'completion_trace': trw})
    evp = '/verif/evidence/C02.json'
    ev = json.load(open(evp)); cov = ev['coverage']
    cov['schedule_part'] = {'configs': res, 'queries': total_q, 'solver_s': round(total_s, 2), 'notes': notes, 'functions_encoded': sorted(funcs)}
    cov['states'] = cov.get('states', 0) + states; cov['transitions'] = cov.get('transitions', 0) + trans
    cov['evaluations'] = cov.get('evaluations', 0) + total_q
    cov['samples'].append({'kind': 'BMC witness: three goroutines run to completion', 'trace': res[-1]['completion_trace']})
    ev['assumptions'].append('schedule part: 3 goroutines (root, derived, derived-in-goroutine) x 3 handler kinds; mutex semantics of engine2/ts.py; each record assembles its line in its own buffer (ownership is checked sequentially)')
    code = 0
    if violations:
        lines, confirmed = native_confirm()
        what, tr = violations[0]
        if confirmed:
            os.makedirs('/verif/replays/C02', exist_ok=True)
            path = '/verif/replays/C02/trace-schedule.json'
            json.dump({'property': 'C02', 'what': [w for w, _ in violations], 'trace': tr, 'native': lines}, open(path, 'w'), indent=1)
            for w, _ in violations: print('  violation: ' + w)
            for l in lines: print('    native: ' + l)
            print('VIOLATION property=C02 replay=' + path)
            ev['violations'] = ev.get('violations', 0) + 1; code = 1
        else:
            for w, _ in violations: notes.append('ENGINE-MISMATCH: solver trace "%s" did not reproduce natively (go test -race, overlapping-Write detector)' % w)
            cov['schedule_part']['notes'] = notes
    for n in notes: print('  NOTE: ' + n)
    json.dump(ev, open(evp, 'w'), indent=1, default=str)
    sys.exit(code)

if __name__ == '__main__':
    main()
