#!/usr/bin/env python3
"""check_tasklane.py <C06|C07|C08|C14> <quick|thorough>
Extracts the transition system of the real tasklane.go (vx extract), proves the protocol invariant by
one-step induction, discharges the property's obligations, and confirms any failure by BMC from the
initial state. Exit 1 + VIOLATION line only for a failure with a concrete trace from Init."""
import sys, os, json, subprocess, time, hashlib
sys.path.insert(0, os.path.dirname(os.path.abspath(__file__)))
from z3 import *
from ts import Model, Checker, count
from tasklane_spec import TaskLaneSpec

VERIF = '/verif'
CONFIGS = {
    'quick':    [dict(lanes=2, queue=1, tasks=2, producers=1), dict(lanes=1, queue=1, tasks=2, producers=1), dict(lanes=2, queue=0, tasks=2, producers=1)],
    'thorough': [dict(lanes=2, queue=1, tasks=2, producers=1), dict(lanes=1, queue=1, tasks=2, producers=1), dict(lanes=2, queue=0, tasks=2, producers=1),
                 dict(lanes=2, queue=1, tasks=3, producers=1), dict(lanes=2, queue=2, tasks=3, producers=2), dict(lanes=3, queue=1, tasks=3, producers=1),
                 dict(lanes=3, queue=2, tasks=4, producers=2), dict(lanes=3, queue=0, tasks=3, producers=1), dict(lanes=1, queue=2, tasks=3, producers=2)],
}
BMC_DEPTH = {'quick': 14, 'thorough': 18}
STUCK_DEPTH = {'quick': 22, 'thorough': 26}   # depth of the search for a schedule from Init into a stuck state the solver found under the invariant

def configs_for(prop, tier):
    """C08 quantifies over all assignments of tasks to lanes: every configuration with >= 2 lanes is analysed with everything
    pushed to lane 0 and (the first one at the quick tier, the first three at the thorough tier) with free lane choice.
    C06 / C14 quantify over concurrent producers: the quick tier adds one small two-producer configuration."""
    base = [dict(c) for c in CONFIGS[tier]]
    if prop == 'C08':
        multi = [c for c in base if c['lanes'] >= 2]
        return [dict(c, onelane=1) for c in base] + [dict(c, onelane=0) for c in multi][:(1 if tier == 'quick' else 3)]
    if prop in ('C06',) and tier == 'quick':
        base.append(dict(lanes=1, queue=1, tasks=2, producers=2))
    if prop == 'C14':
        # the bound PendingTask <= laneSize x (queueSize+1) can only be exceeded with more tasks than it allows: one running + 2 waiting on 1 x 0
        base.append(dict(lanes=1, queue=0, tasks=3, producers=1))
    return base

def ordered(cfgs):
    """small systems first: a violation found there spares the expensive schedule searches in the larger ones"""
    return sorted(cfgs, key=lambda c: (c['lanes'] * 3 + c['tasks'] * 2 + c['queue'] + c['producers']))

def extract(prop, cfg, extra):
    out = '/tmp/vx_ts_%s_%d.json' % (prop, os.getpid())
    args = [VERIF + '/bin/vx', 'extract', 'C06', '-setup', 'S_tasklane', '-o', out]
    allp = dict(cfg); allp.update(extra)
    for k, v in allp.items(): args += ['-param', '%s=%d' % (k, v)]
    r = subprocess.run(args, capture_output=True, text=True)
    ts = json.load(open(out)); os.remove(out)
    return ts, r.returncode

def native_race():
    """runs harness/C14/race_native_test.go under the race detector against /repo's working tree"""
    import tempfile, shutil
    tmp = tempfile.mkdtemp(prefix='vxrace')
    try:
        src = open(VERIF + '/harness/C14/race_native_test.go.txt').read()
        real = os.path.join(tmp, 'zz_vx_race_test.go')
        open(real, 'w').write(src)
        ov = os.path.join(tmp, 'overlay.json')
        json.dump({'Replace': {'/repo/tasklane/zz_vx_race_test.go': real}}, open(ov, 'w'))
        env = dict(os.environ, GOFLAGS='-mod=mod', GOPROXY='off', GOSUMDB='off', GOTOOLCHAIN='local')
        r = subprocess.run(['timeout', '300', 'go', 'test', '-race', '-vet=off', '-count=1', '-run', '^TestVxRaceLastPanic$', '-overlay', ov, './tasklane'],
                           cwd='/repo', env=env, capture_output=True, text=True)
        lines = (r.stdout + r.stderr).splitlines()
        confirmed = any('WARNING: DATA RACE' in l for l in lines) and any('tasklane.go' in l for l in lines)
        keep = [l for l in lines if 'DATA RACE' in l or 'tasklane.go' in l]
        return keep, confirmed
    finally:
        shutil.rmtree(tmp, ignore_errors=True)

def native_scenario(test):
    """runs one scenario of harness/C06/native_test.go.txt against /repo's working tree; True = it failed"""
    import tempfile, shutil
    tmp = tempfile.mkdtemp(prefix='vxnat')
    try:
        real = os.path.join(tmp, 'zz_vx_native_test.go')
        open(real, 'w').write(open(VERIF + '/harness/C06/native_test.go.txt').read())
        ov = os.path.join(tmp, 'overlay.json')
        json.dump({'Replace': {'/repo/tasklane/zz_vx_native_test.go': real}}, open(ov, 'w'))
        env = dict(os.environ, GOFLAGS='-mod=mod', GOPROXY='off', GOSUMDB='off', GOTOOLCHAIN='local')
        r = subprocess.run(['timeout', '300', 'go', 'test', '-vet=off', '-count=1', '-run', '^' + test + '$', '-overlay', ov, './tasklane'],
                           cwd='/repo', env=env, capture_output=True, text=True)
        lines = (r.stdout + r.stderr).splitlines()
        return [l.strip() for l in lines if 'VX-NATIVE' in l or 'panic:' in l], (r.returncode != 0 and any('VX-NATIVE' in l or 'panic' in l for l in lines))
    finally:
        shutil.rmtree(tmp, ignore_errors=True)

SCENARIOS = {'C06': ['TestVxStuck', 'TestVxExactlyOnce'], 'C07': ['TestVxShutdown'], 'C08': ['TestVxHeadOfLine', 'TestVxHeadOfLineAllBusy', 'TestVxRejectIdle', 'TestVxPanics'], 'C14': ['TestVxPanics', 'TestVxExactlyOnce']}

NATIVE_FOR = {'push blocked (left to time out) while a worker is idle and no accepted task waits': 'TestVxRejectIdle', 'accepted task never started: stuck state': 'TestVxStuck', 'head-of-line blocking: idle worker while an accepted task waits': 'TestVxHeadOfLine.*',
              'lane goroutine left behind after cancel': 'TestVxShutdown', 'producer stays blocked after cancel': 'TestVxShutdown'}

def main():
    prop, tier = sys.argv[1], (sys.argv[2] if len(sys.argv) > 2 else os.environ.get('VERIF_TIER', 'quick'))
    if tier not in CONFIGS: tier = 'quick'
    t0 = time.time()
    seed = int(os.environ.get('VERIF_SEED', '0') or 0)
    report = {'configs': [], 'obligations': 0, 'discharged': 0, 'queries': 0, 'solver_s': 0.0}
    violations = []; notes = []; samples = []; states = 0; transitions = 0; funcs = {}; stubs = {}; files = {}
    inconclusive = []
    race_candidates = []
    native_done = {}
    validated = [0]
    unsettled = []
    CFGS = ordered(configs_for(prop, tier))
    def one_config(cfg):
        nonlocal states, transitions
        extra = dict(status=2 if prop == 'C14' else 0, wait=1 if prop == 'C07' else 0, onelane=cfg.get('onelane', 0))
        ts, rc = extract(prop, cfg, extra)
        for n in ts.get('notes') or []:
            inconclusive.append('%s: %s' % (cfg, n))
            if 'UNSUPPORTED' in n or 'LIMIT' in n:
                unsettled.append('extraction left the encodable fragment: ' + n[:160])
        funcs.update(ts['funcs']); stubs.update(ts['stubs']); files.update(ts.get('files') or {})
        spec = TaskLaneSpec(cfg['lanes'], cfg['queue'], cfg['tasks'])
        m = Model(ts, spec, panics=(prop == 'C14'))
        ck = Checker(m, timeout_ms=300000)
        states += sum(p['nlocs'] for p in m.procs); transitions += len(m.steps)
        cname = 'L%dQ%dN%dP%d' % (cfg['lanes'], cfg['queue'], cfg['tasks'], cfg['producers']) + ('' if prop != 'C08' else ('-lane0' if cfg.get('onelane') else '-anylane'))
        res = {'config': cname, 'steps': len(m.steps), 'locations': [p['nlocs'] for p in m.procs]}
        inv = lambda s: spec.inv(m, s)
        nopin = lambda s: And(*[Not(x) for x in m.pinned])
        # 1. the invariant is inductive
        fails = ck.induct(inv, cname + ':inv')
        res['induction_failures'] = [(f[0], str(f[1])) for f in fails]
        K = BMC_DEPTH[tier]
        safe = {'C06': spec.safe_c06, 'C07': spec.safe_c07, 'C08': spec.safe_c08, 'C14': spec.safe_c14}[prop]
        # 2. invariant implies the safety predicate
        s = m.state('x')
        r, mod = ck.solve([inv(s), Not(safe(m, s))], cname + ':inv=>safe')
        if r != unsat:
            fails.append(('inv=>safe', r, None))
        # 3. progress / quiescence obligations
        prog_fail = []
        stuck_pred = {}
        if prop in ('C06', 'C08', 'C07'):
            s = m.state('q')
            g = s['g']
            internal = spec.internal_steps(m)
            no_internal = And(*[Not(m.enabled(st, s)) for st in internal])
            canc = spec.cancelled(m, s)
            pend = Or(*[And(g['acc%d' % k], g['st%d' % k] == 0) for k in range(spec.N)])
            def pend_of(s_): return Or(*[And(s_['g']['acc%d' % k], s_['g']['st%d' % k] == 0) for k in range(spec.N)])
            def no_internal_of(s_): return And(*[Not(m.enabled(st, s_)) for st in internal])
            if prop == 'C06':
                r, mod = ck.solve([inv(s), nopin(s), Not(canc), pend, no_internal], cname + ':no stuck accepted task (live ctx, tasks return)')
                if r != unsat:
                    prog_fail.append(('accepted task never started: stuck state', r, ck.describe(mod, s) if mod else None))
                    stuck_pred['accepted task never started: stuck state'] = lambda s_: And(nopin(s_), Not(spec.cancelled(m, s_)), pend_of(s_), no_internal_of(s_))
            if prop == 'C08':
                npinned = count(m.pinned)
                idle = []
                for pi in range(len(m.procs)):
                    if spec.role(m, pi) == 'startWorker':
                        bl = {t['from'] for t in m.procs[pi]['trans'] if t['ev']['kind'] == 'select' and t['ev'].get('blocking')}
                        idle.append(Or(*[s['pc'][pi] == l for l in bl]))
                def idle_of(s_):
                    out = []
                    for pi in range(len(m.procs)):
                        if spec.role(m, pi) == 'startWorker':
                            bl = {t['from'] for t in m.procs[pi]['trans'] if t['ev']['kind'] == 'select' and t['ev'].get('blocking')}
                            out.append(Or(*[s_['pc'][pi] == l for l in bl]))
                    return Or(*out)
                r, mod = ck.solve([inv(s), ULT(npinned, spec.L), Not(canc), pend, Or(*idle), no_internal], cname + ':no head-of-line blocking (idle worker, waiting task)')
                if r != unsat:
                    prog_fail.append(('head-of-line blocking: idle worker while an accepted task waits', r, ck.describe(mod, s) if mod else None))
                    stuck_pred['head-of-line blocking: idle worker while an accepted task waits'] = lambda s_: And(ULT(count(m.pinned), spec.L), Not(spec.cancelled(m, s_)), pend_of(s_), idle_of(s_), no_internal_of(s_))
                # a push is not left to time out while a worker is idle and nothing waits: a producer blocked in PushTask's select whose
                # send cannot proceed, with the lane goroutines at rest, no accepted task waiting and an idle worker, must not exist
                def blocked_producer(s_):
                    out = []
                    for pi in range(len(m.procs)):
                        if spec.role(m, pi) != 'producer': continue
                        for l in {t['from'] for t in m.procs[pi]['trans'] if t['ev']['kind'] == 'select' and t['ev'].get('blocking')}:
                            tr_ = m.procs[pi]['trans']
                            sends = [st for st in m.steps if st['kind'] == 'rdv' and st['p'] == pi and tr_[st['t']]['from'] == l]
                            buf = [st for st in m.steps if st['kind'] == 'solo' and st['p'] == pi and tr_[st['t']]['from'] == l and tr_[st['t']]['ev']['kind'] == 'select'
                                   and tr_[st['t']]['ev']['outcome'] >= 0 and tr_[st['t']]['ev']['cases'][tr_[st['t']]['ev']['outcome']]['dir'] == 'send']
                            out.append(And(s_['pc'][pi] == l, *[Not(m.enabled(st, s_)) for st in sends + buf]))
                    return Or(*out) if out else BoolVal(False)
                r, mod = ck.solve([inv(s), ULT(npinned, spec.L), Not(canc), Not(pend), Or(*idle), no_internal, blocked_producer(s)], cname + ':no push left to time out while a worker is idle and nothing waits')
                if r != unsat:
                    what = 'push blocked (left to time out) while a worker is idle and no accepted task waits'
                    prog_fail.append((what, r, ck.describe(mod, s) if mod else None))
                    stuck_pred[what] = lambda s_: And(ULT(count(m.pinned), spec.L), Not(spec.cancelled(m, s_)), Not(pend_of(s_)), idle_of(s_), no_internal_of(s_), blocked_producer(s_))
            if prop == 'C07':
                lane = spec.lane_procs(m)
                allexit = And(*[s['pc'][pi] == m.procs[pi]['exit'] for pi in lane])
                r, mod = ck.solve([inv(s), canc, g['run'] == 0, no_internal, Not(allexit)], cname + ':cancelled and quiescent => every lane goroutine exited')
                if r != unsat: prog_fail.append(('lane goroutine left behind after cancel', r, ck.describe(mod, s) if mod else None))
                # blocked producers are released
                for pi in range(len(m.procs)):
                    if spec.role(m, pi) != 'producer': continue
                    for l in {t['from'] for t in m.procs[pi]['trans'] if t['ev']['kind'] == 'select' and t['ev'].get('blocking')}:
                        outs = [st for st in m.steps if st['kind'] == 'solo' and st['p'] == pi and m.procs[pi]['trans'][st['t']]['from'] == l]
                        r, mod = ck.solve([inv(s), canc, s['pc'][pi] == l, And(*[Not(m.enabled(st, s)) for st in outs])], cname + ':blocked producer released at loc %d' % l)
                        if r != unsat: prog_fail.append(('producer stays blocked after cancel', r, None))
        # 4. reachability witnesses (vacuity): all tasks started; a panic; cancel with a task held
        wit = []
        sB = None
        def reach(name, pred, depth):
            r, tr = ck.bmc(depth, pred, cname + ':witness:' + name)
            wit.append((name, str(r), len(tr) if tr else 0))
            if tr and len(samples) < 4: samples.append({'config': cname, 'witness': name, 'trace': tr})
            return r
        if cfg == CFGS[0]:
            reach('a task started', lambda s: s['g']['st0'] == 1, min(K, 12))
            if prop == 'C14':
                reach('a task panicked and lastPanic observed', lambda s: s['g']['pan0'], min(K, 14))
        res['witnesses'] = wit
        # 5. data race candidates (C14): plain accesses of the same cell by different processes, lock sets disjoint
        races = []
        if prop == 'C14':
            acc = []
            for pi, p in enumerate(m.procs):
                for ti, t in enumerate(p['trans']):
                    if t['ev']['kind'] in ('load', 'store') and m.cells.get(t['ev']['cell'], {}).get('kind') == 'plain':
                        acc.append((pi, ti, t['ev']['cell'], t['ev']['kind']))
            pairs = [(a, b) for i, a in enumerate(acc) for b in acc[i + 1:] if a[0] != b[0] and a[2] == b[2] and 'store' in (a[3], b[3])]
            seen = set()
            for a, b in pairs:
                key = (a[2], m.procs[a[0]]['name'], m.procs[b[0]]['name'], a[3], b[3])
                if key in seen: continue
                seen.add(key)
                sa = [st for st in m.steps if st['kind'] == 'solo' and st['p'] == a[0] and st['t'] == a[1]][0]
                sb = [st for st in m.steps if st['kind'] == 'solo' and st['p'] == b[0] and st['t'] == b[1]][0]
                sx = m.state('r')
                r, mod = ck.solve([inv(sx), m.enabled(sa, sx), m.enabled(sb, sx)], cname + ':race-candidate:%s %s/%s' % key[:3])
                if r != unsat:
                    races.append({'cell': a[2], 'a': m.label(sa), 'b': m.label(sb), 'trace': ['(state satisfying the inductive invariant in which both accesses are enabled)', str(ck.describe(mod, sx)) if mod else '']})
        res['races'] = races
        # verdicts: a failed obligation is confirmed by BMC from Init before it becomes a violation
        if (fails or prog_fail) and violations:
            notes.append('%s: %d obligation(s) failed; no schedule searched because a violation was already established in %s' % (cname, len(fails) + len(prog_fail), violations[0]['config']))
        elif fails or prog_fail:
            for kk in (K, K + 3, K + 6):   # iterative deepening; stops at the first schedule or the first unknown
                r, tr = ck.bmc(kk, lambda s: Not(safe(m, s)), cname + ':bmc:safety:%d' % kk)
                if r != unsat: break
            Kd = kk
            if r == sat:
                violations.append({'config': cname, 'what': 'safety predicate violated', 'trace': tr})
            else:
                for f in fails:
                    unsettled.append('%s: obligation %s failed and BMC found no trace within %d steps (%s)' % (cname, f[0], Kd, r))
                    notes.append('%s: induction not established at %s (%s); no violating trace within %d steps (%s): claim reduced to BMC depth %d' % (cname, f[0], f[1], Kd, r, Kd if r == unsat else Kd - 3))
            for pf in prog_fail:
                # is such a stuck state reachable from Init?
                notes.append('%s: progress obligation failed under the invariant: %s (%s)' % (cname, pf[0], pf[1]))
                unsettled.append('%s: %s' % (cname, pf[0]))
                if pf[0] in stuck_pred:
                    for kk in (12, 16, STUCK_DEPTH[tier]):   # iterative deepening: short schedules are found quickly
                        r2, tr2 = ck.bmc(kk, stuck_pred[pf[0]], cname + ':bmc:stuck:%d:' % kk + pf[0][:30])
                        if r2 != unsat: break
                    if r2 == sat:
                        violations.append({'config': cname, 'what': pf[0] + ' (schedule from Init found by BMC)', 'trace': tr2})
                        continue
                    notes.append('%s: no schedule into such a state within %d steps (%s)' % (cname, STUCK_DEPTH[tier], r2))
                test = NATIVE_FOR.get(pf[0])
                if test and test not in native_done:
                    native_done[test] = native_scenario(test)
                if test and native_done[test][1]:
                    violations.append({'config': cname, 'what': pf[0] + ' (state found by the solver under the proved invariant; confirmed natively by ' + test + ')',
                                       'trace': [str(pf[2])] + native_done[test][0]})
                    validated[0] += 1
        for rc_ in races:
            race_candidates.append({'config': cname, 'cell': rc_['cell'], 'a': rc_['a'], 'b': rc_['b'], 'state': rc_['trace']})
        res['obligations'] = len(ck.stats['obligations'])
        res['unsat'] = sum(1 for o in ck.stats['obligations'] if o['result'] == 'unsat')
        res['slowest'] = sorted(ck.stats['obligations'], key=lambda o: -o['s'])[:3]
        report['configs'].append(res)
        report['obligations'] += res['obligations']; report['discharged'] += res['unsat']
        report['queries'] += ck.stats['queries']; report['solver_s'] += ck.stats['solver_s']
        if ck.stats['unknown']: inconclusive.append('%s: %d solver unknown/timeouts' % (cname, ck.stats['unknown']))
        print('config %s: %d steps, %d obligations (%d unsat), induction failures %d, progress failures %d, races %d, solver %.1fs' % (
            cname, len(m.steps), res['obligations'], res['unsat'], len(fails), len(prog_fail), len(races), ck.stats['solver_s']))
        sys.stdout.flush()
    for cfg in CFGS:
        try:
            one_config(cfg)
        except Exception as ex:
            import traceback
            inconclusive.append("%s: analysis failed (%s: %s)" % (cfg, type(ex).__name__, str(ex)[:200]))
            unsettled.append("the extracted system of %s could not be encoded (%s)" % (cfg, type(ex).__name__))
    # data-race candidates (states satisfying the inductive invariant with two conflicting plain accesses
    # enabled) are confirmed natively: go test -race on a stress test of exactly that pair of sites
    if race_candidates:
        print('  %d data-race candidate(s) from the solver, e.g. %s || %s on %s' % (len(race_candidates), race_candidates[0]['a'], race_candidates[0]['b'], race_candidates[0]['cell']))
        out, confirmed = native_race()
        if confirmed:
            violations.append({'config': race_candidates[0]['config'], 'what': 'data race on the last-panic slot (worker || worker, worker || Status), confirmed by go test -race',
                               'trace': [c['a'] + ' || ' + c['b'] for c in race_candidates] + out[-12:], 'tag': 'race:lastPanic'})
            validated[0] += 1
        else:
            notes.append('data-race candidates not confirmed by the native race detector: ' + '; '.join(c['a'] + ' || ' + c['b'] for c in race_candidates[:4]))
    # Whatever the solver-based analysis could not settle (a failed obligation without a trace from Init, a system
    # that left the encodable fragment) is handed to the native scenarios of this property; only a scenario that
    # fails on the real runtime turns it into a violation.
    if unsettled and not violations:
        print('  %d unsettled item(s), e.g. %s; running native scenarios %s' % (len(unsettled), unsettled[0][:140], SCENARIOS.get(prop)))
        for test in SCENARIOS.get(prop, []):
            if test not in native_done:
                native_done[test] = native_scenario(test)
            if native_done[test][1]:
                violations.append({'config': 'native', 'what': 'native scenario %s fails on this tree (solver-side: %s)' % (test, unsettled[0][:200]), 'trace': native_done[test][0][-10:]})
                validated[0] += 1
                break
    # known findings
    known = []
    try:
        known = [k for k in json.load(open(VERIF + '/known_findings.json')) if k['property'] == prop and k['status'] == 'known']
    except Exception: pass
    exit_code = 0
    printed = set()
    os.makedirs(VERIF + '/replays/' + prop, exist_ok=True)
    nviol = 0
    for v in violations:
        hit = [k for k in known if k['match'] in v['what'] or k['match'] == v.get('tag')]
        if hit:
            line = 'KNOWN-FINDING: property=%s %s' % (prop, hit[0]['what'])
            if line not in printed: print(line); printed.add(line)
            continue
        data = json.dumps(v, indent=1)
        path = '%s/replays/%s/trace-%s.json' % (VERIF, prop, hashlib.sha256(data.encode()).hexdigest()[:12])
        open(path, 'w').write(data)
        print('  violation: %s in %s; trace of %d steps' % (v['what'], v['config'], len(v['trace'] or [])))
        print('VIOLATION property=%s replay=%s' % (prop, path))
        nviol += 1; exit_code = 1
    for n in notes: print('  NOTE: ' + n)
    for n in inconclusive: print('  INCONCLUSIVE: ' + n)
    if not samples: samples = [{'note': 'no witness trace requested in this run'}]
    ev = {'property_id': prop, 'tier': tier, 'seed': seed, 'level': 'model_checking', 'wall_s': round(time.time() - t0, 2), 'violations': nviol,
          'assumptions': ['channel/select/WaitGroup/atomic/timer semantics of engine2/ts.py (stated there)', 'task bodies, producers\' lane choices, the cancel point and timers are the environment (any behaviour)',
                          'context modelled by a minimal Context whose Done() channel the canceller closes (Err() non-nil iff closed)', 'configurations (lanes, queue, tasks, producers) as listed; one inductive step covers executions of any length within a configuration'],
          'coverage': {'states': states, 'transitions': transitions, 'traces_validated_against_impl': validated[0], 'samples': samples,
                       'evaluations': report['queries'], 'distinct_nontrivial': report['discharged'],
                       'rule': 'evaluations = SMT queries; distinct_nontrivial = proof obligations answered unsat (one per transition of the extracted automaton for the inductive step, plus implication / progress / witness queries)',
                       'obligations': report['obligations'], 'discharged': report['discharged'], 'solver_s': round(report['solver_s'], 2),
                       'configs': report['configs'], 'functions_encoded': sorted('%s (%d instrs)' % kv for kv in funcs.items()), 'stubs_and_intrinsics': sorted(stubs),
                       'source_files': sorted('%s sha256:%s' % (k, v[:16]) for k, v in files.items()), 'bmc_depth': BMC_DEPTH[tier],
                       'notes': notes, 'inconclusive': inconclusive, 'known_findings_matched': len(printed),
                       'explanation': 'transition system extracted from the SSA of startQueue/startWorker/PushTask/Status/Wait on every run; invariant proved by one-step induction (z3), failures confirmed by BMC from Init'}}
    os.makedirs(VERIF + '/evidence', exist_ok=True)
    json.dump(ev, open('%s/evidence/%s.json' % (VERIF, prop), 'w'), indent=1)
    print('%s %s: exit=%d wall=%.1fs' % (prop, tier, exit_code, time.time() - t0))
    sys.exit(exit_code)

if __name__ == '__main__':
    main()
