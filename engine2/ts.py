"""Engine 2 back end: SMT encoding of the transition system extracted from goroutine SSA
(vx extract -> JSON). States are bit-vector valued; one step = one process transition or one
rendezvous of two processes on an unbuffered channel. Queries: BMC from the initial state,
one-step induction of an invariant, reachability witnesses, deadlock/progress predicates,
simultaneous-enabledness (race) queries. Solver: z3 (z3py).

Channel / select semantics (stated, small; DESIGN.md 2.3-2):
  buffered channel  = FIFO of cap slots + count; unbuffered = rendezvous of a send case and a
  receive case of two different processes, at least one of them in a blocking select;
  a non-blocking select takes `default` only if no buffered/closed/timer case is ready
  (an unbuffered partner standing at a blocking select may or may not have parked yet, so both
  the rendezvous and `default` are admitted); several ready cases: any of them;
  closed channel: receive always ready; timer channel: receive ready at any time.
"""
import json, math, os, re, time
from z3 import *

# ------------------------------------------------------------------ tiny SMT-LIB expression parser

def _tok(s):
    return re.findall(r'\(|\)|[^\s()]+', s)

def parse_smt(s, env):
    toks = _tok(s)
    pos = [0]
    def rd():
        t = toks[pos[0]]; pos[0] += 1
        if t != '(':
            return atom(t)
        if toks[pos[0]] == '(':  # ((_ extract h l) x)
            pos[0] += 1
            assert toks[pos[0]] == '_'
            pos[0] += 1
            op = toks[pos[0]]; pos[0] += 1
            args = []
            while toks[pos[0]] != ')':
                args.append(int(toks[pos[0]])); pos[0] += 1
            pos[0] += 1
            x = rd()
            assert toks[pos[0]] == ')'; pos[0] += 1
            if op == 'extract': return Extract(args[0], args[1], x)
            if op == 'zero_extend': return ZeroExt(args[0], x)
            if op == 'sign_extend': return SignExt(args[0], x)
            raise ValueError(op)
        op = toks[pos[0]]; pos[0] += 1
        args = []
        while toks[pos[0]] != ')':
            args.append(rd())
        pos[0] += 1
        return app(op, args)
    def atom(t):
        if t.startswith('#x'): return BitVecVal(int(t[2:], 16), 4 * (len(t) - 2))
        if t.startswith('#b'): return BitVecVal(int(t[2:], 2), len(t) - 2)
        if t == 'true': return BoolVal(True)
        if t == 'false': return BoolVal(False)
        if t in env: return env[t]
        raise KeyError('unknown variable in guard/value: ' + t)
    def app(op, a):
        tbl = {'bvadd': lambda: a[0] + a[1], 'bvsub': lambda: a[0] - a[1], 'bvmul': lambda: a[0] * a[1],
               'bvand': lambda: a[0] & a[1], 'bvor': lambda: a[0] | a[1], 'bvxor': lambda: a[0] ^ a[1],
               'bvshl': lambda: a[0] << a[1], 'bvlshr': lambda: LShR(a[0], a[1]), 'bvashr': lambda: a[0] >> a[1],
               'bvudiv': lambda: UDiv(a[0], a[1]), 'bvurem': lambda: URem(a[0], a[1]), 'bvsdiv': lambda: a[0] / a[1], 'bvsrem': lambda: SRem(a[0], a[1]),
               'bvneg': lambda: -a[0], 'bvnot': lambda: ~a[0],
               'bvult': lambda: ULT(a[0], a[1]), 'bvule': lambda: ULE(a[0], a[1]), 'bvslt': lambda: a[0] < a[1], 'bvsle': lambda: a[0] <= a[1],
               '=': lambda: a[0] == a[1], 'not': lambda: Not(a[0]), 'and': lambda: And(*a), 'or': lambda: Or(*a),
               'ite': lambda: If(a[0], a[1], a[2]), 'concat': lambda: Concat(a[0], a[1])}
        return tbl[op]()
    return rd()

def bvsum(terms, w=8):
    r = BitVecVal(0, w)
    for t in terms: r = r + t
    return r

def count(conds, w=8):
    """number of true conditions as a bit-vector"""
    return bvsum([If(c, BitVecVal(1, w), BitVecVal(0, w)) for c in conds], w)

# ------------------------------------------------------------------ model

class Model:
    def __init__(self, ts, spec=None, panics=True):
        self.ts = ts
        self.spec = spec
        self.panics = panics
        self.N = max(1, ts['ntokens'])
        self.tb = max(1, math.ceil(math.log2(self.N + 1)))      # token value width (N = "none"/invalid)
        self.ab = self.tb + 1                                    # abstract value: 0 nil/other, 1+k panic value of token k
        self.procs = ts['procs']
        for p in self.procs:
            p['trans'] = p['trans'] or []
        self.chans = {c['id']: c for c in (ts['chans'] or [])}
        self.cells = {c['name']: c for c in (ts['cells'] or [])}
        self.pcw = [max(1, math.ceil(math.log2(max(2, p['nlocs'])))) for p in self.procs]
        self.pinned = [Bool('pinned_%d' % k) for k in range(self.N)]
        self._live = None
        self.steps = self._mk_steps()

    # ---- state
    def state(self, sfx):
        s = {'pc': [], 'v': [], 'cnt': {}, 'slot': {}, 'closed': {}, 'cell': {}, 'g': {}}
        for i, p in enumerate(self.procs):
            s['pc'].append(BitVec('pc%d_%s' % (i, sfx), self.pcw[i]))
            vs = {}
            for n, w in p['vars'].items():
                vs[n] = BitVec('v%d_%s_%s' % (i, n, sfx), self.tb if w == 0 else (self.ab if w == -1 else w))
            s['v'].append(vs)
        for cid, c in self.chans.items():
            s['closed'][cid] = Bool('closed%d_%s' % (cid, sfx))
            s['cnt'][cid] = BitVec('cnt%d_%s' % (cid, sfx), 8)
            s['slot'][cid] = [BitVec('slot%d_%d_%s' % (cid, i, sfx), self.elemw(c)) for i in range(c['cap'])]
        for n, c in self.cells.items():
            s['cell'][n] = BitVec('cell_%s_%s' % (re.sub(r'\W', '_', n), sfx), self.ab if c['w'] == 0 else c['w'])
        if self.spec:
            for n, srt in self.spec.ghost_decl(self).items():
                s['g'][n] = Const('g_%s_%s' % (n, sfx), srt)
        return s

    def elemw(self, c):
        return {'tok': self.tb, 'unit': 1, 'int': 64}[c['elem']]

    def flat(self, s):
        out = list(s['pc'])
        for vs in s['v']: out += [vs[k] for k in sorted(vs)]
        for cid in sorted(self.chans):
            out += [s['closed'][cid], s['cnt'][cid]] + s['slot'][cid]
        out += [s['cell'][k] for k in sorted(s['cell'])]
        out += [s['g'][k] for k in sorted(s['g'])]
        return out

    def init(self, s):
        f = []
        for i, p in enumerate(self.procs):
            f.append(s['pc'][i] == p['init'])
        for cid in self.chans:
            f += [Not(s['closed'][cid]), s['cnt'][cid] == 0]
        for n, c in self.cells.items():
            if c['w'] == 0:
                f.append(s['cell'][n] == 0)
            else:
                f.append(s['cell'][n] == parse_smt(c['init'], {}))
        if self.spec:
            f += self.spec.ghost_init(self, s)
        return And(*f)

    # ---- values
    def val(self, vx, s, pi):
        k = vx['kind']
        if k == 'tok': return BitVecVal(vx.get('tok', 0), self.tb)
        if k == 'reg': return s['v'][pi][vx['reg']]
        if k == 'int': return parse_smt(vx['smt'], s['v'][pi])
        if k == 'bool': return If(parse_smt(vx['smt'], s['v'][pi]), BitVecVal(1, 1), BitVecVal(0, 1))
        if k == 'unit': return BitVecVal(0, 1)
        if k == 'nil': return BitVecVal(0, self.ab)
        if k == 'pval':
            if vx.get('txt') == 'reg': return ZeroExt(1, s['v'][pi][vx['reg']]) + 1
            return BitVecVal(vx.get('tok', 0) + 1, self.ab)
        if k == 'absreg': return s['v'][pi][vx['reg']]
        if k == 'opaque': return BitVecVal(0, self.ab)
        raise ValueError(k)

    def cellval(self, vx, s, pi, cname):
        c = self.cells[cname]
        v = self.val(vx, s, pi)
        w = self.ab if c['w'] == 0 else c['w']
        if v.size() < w: v = ZeroExt(w - v.size(), v)
        if v.size() > w: v = Extract(w - 1, 0, v)
        return v

    # ---- steps: every atomic step of the system as (label, procs involved, guard(s), updates(s) -> dict)
    def _mk_steps(self):
        steps = []
        sends, recvs = {}, {}
        for pi, p in enumerate(self.procs):
            for ti, t in enumerate(p['trans']):
                ev = t['ev']
                if ev['kind'] == 'select' and ev['outcome'] >= 0:
                    cs = ev['cases'][ev['outcome']]
                    cid = cs['chan']
                    if cid >= 0 and self.chans[cid]['cap'] == 0:
                        (sends if cs['dir'] == 'send' else recvs).setdefault(cid, []).append((pi, ti))
                steps.append({'kind': 'solo', 'p': pi, 't': ti})
        for cid, ss in sends.items():
            for (pi, ti) in ss:
                for (qi, ui) in recvs.get(cid, []):
                    if pi != qi:
                        bp = self.procs[pi]['trans'][ti]['ev'].get('blocking', False)
                        bq = self.procs[qi]['trans'][ui]['ev'].get('blocking', False)
                        if bp or bq:
                            steps.append({'kind': 'rdv', 'p': pi, 't': ti, 'q': qi, 'u': ui, 'chan': cid})
        return steps

    def label(self, st):
        p = self.procs[st['p']]; t = p['trans'][st['t']]; ev = t['ev']
        d = '%s[%d->%d] %s' % (p['name'] + '#' + str(st['p']), t['from'], t['to'], ev['kind'])
        if ev['kind'] == 'select': d += ' case %d' % ev['outcome']
        if ev['kind'] in ('obs',): d += ' ' + ev.get('name', '')
        if st['kind'] == 'rdv':
            q = self.procs[st['q']]; u = q['trans'][st['u']]
            d += ' <=> %s[%d->%d]' % (q['name'] + '#' + str(st['q']), u['from'], u['to'])
        return d

    def case_ready_alone(self, cs, s):
        """readiness of a select case that does not need a partner"""
        cid = cs['chan']
        if cs['dir'] == 'nil': return BoolVal(False)
        if cid == -1: return BoolVal(True)  # timer
        c = self.chans[cid]
        if cs['dir'] == 'recv':
            if c['cap'] == 0: return s['closed'][cid]
            return Or(s['cnt'][cid] != 0, s['closed'][cid])
        if c['cap'] == 0: return BoolVal(False)
        return And(ULT(s['cnt'][cid], c['cap']), Not(s['closed'][cid]))

    def step_formula(self, st, s, s2):
        """returns (guard, effect) for step st between states s and s2; effect includes the frame"""
        upd = {}   # key -> new expr ; keys: ('pc',i) ('v',i,name) ('cnt',c) ('slot',c,i) ('closed',c) ('cell',n) ('g',n)
        guard = []
        pi = st['p']; p = self.procs[pi]; t = p['trans'][st['t']]; ev = t['ev']
        guard.append(s['pc'][pi] == t['from'])
        upd[('pc', pi)] = BitVecVal(t['to'], self.pcw[pi])
        fired = [(pi, t)]
        if st['kind'] == 'rdv':
            qi = st['q']; q = self.procs[qi]; u = q['trans'][st['u']]
            guard.append(s['pc'][qi] == u['from'])
            guard.append(Not(s['closed'][st['chan']]))
            upd[('pc', qi)] = BitVecVal(u['to'], self.pcw[qi])
            scase = ev['cases'][ev['outcome']]; rcase = u['ev']['cases'][u['ev']['outcome']]
            if rcase.get('res') and rcase['res'] in q['vars']:
                upd[('v', qi, rcase['res'])] = self.val(scase['val'], s, pi)
            fired.append((qi, u))
        else:
            k = ev['kind']
            if k == 'select':
                if ev['outcome'] == -2:
                    # `v, ok := <-ch` observing a closed (and drained) channel: ok == false
                    cid = ev['cases'][0]['chan']
                    guard.append(s['closed'][cid])
                    if self.chans[cid]['cap'] > 0: guard.append(s['cnt'][cid] == 0)
                elif ev['outcome'] < 0:
                    for cs in ev['cases']:
                        guard.append(Not(self.case_ready_alone(cs, s)))
                else:
                    cs = ev['cases'][ev['outcome']]
                    cid = cs['chan']
                    if cs['dir'] == 'nil':
                        guard.append(BoolVal(False))
                    elif cid == -1:
                        pass  # timer fires
                    else:
                        c = self.chans[cid]
                        if c['cap'] == 0:
                            if cs['dir'] == 'recv':
                                guard.append(s['closed'][cid])  # alone only when closed (zero value)
                                if ev.get('commaok'): guard.append(BoolVal(False))  # the closed case is outcome -2
                                if cs.get('res') in p['vars']:
                                    upd[('v', pi, cs['res'])] = BitVecVal(self.N if p['vars'][cs['res']] == 0 else 0, s['v'][pi][cs['res']].size())
                            else:
                                guard.append(BoolVal(False))  # unbuffered send needs a partner (rdv step)
                        else:
                            cnt = s['cnt'][cid]; slots = s['slot'][cid]
                            if cs['dir'] == 'recv':
                                nonempty = cnt != 0
                                guard.append(nonempty if ev.get('commaok') else Or(nonempty, s['closed'][cid]))
                                if cs.get('res') in p['vars']:
                                    zero = BitVecVal(self.N if p['vars'][cs['res']] == 0 else 0, s['v'][pi][cs['res']].size())
                                    upd[('v', pi, cs['res'])] = If(nonempty, slots[0], zero)
                                for i in range(c['cap']):
                                    nxt = slots[i + 1] if i + 1 < c['cap'] else slots[i]
                                    upd[('slot', cid, i)] = If(nonempty, nxt, slots[i])
                                upd[('cnt', cid)] = If(nonempty, cnt - 1, cnt)
                            else:
                                guard.append(And(ULT(cnt, c['cap']), Not(s['closed'][cid])))
                                v = self.val(cs['val'], s, pi)
                                for i in range(c['cap']):
                                    upd[('slot', cid, i)] = If(cnt == i, v, slots[i])
                                upd[('cnt', cid)] = cnt + 1
            elif k == 'close':
                upd[('closed', ev['chan'])] = BoolVal(True)
            elif k == 'len':
                cid = ev['chan']
                upd[('v', pi, ev['res'])] = ZeroExt(56, s['cnt'][cid]) if cid in s['cnt'] else BitVecVal(0, 64)
            elif k == 'atomic':
                cell = s['cell'][ev['cell']]; op = ev['op']
                if op == 'add':
                    nv = cell + self.cellval(ev['val'], s, pi, ev['cell'])
                    upd[('cell', ev['cell'])] = nv; upd[('v', pi, ev['res'])] = nv
                elif op == 'load':
                    upd[('v', pi, ev['res'])] = cell
                elif op == 'store':
                    upd[('cell', ev['cell'])] = self.cellval(ev['val'], s, pi, ev['cell'])
                elif op == 'swap':
                    upd[('v', pi, ev['res'])] = cell
                    upd[('cell', ev['cell'])] = self.cellval(ev['val'], s, pi, ev['cell'])
                elif op == 'cas':
                    old = self.cellval(ev['val'], s, pi, ev['cell'])
                    if ev['outcome'] == 1:
                        guard.append(cell == old)
                        upd[('cell', ev['cell'])] = self.cellval(ev['args'][0], s, pi, ev['cell'])
                    else:
                        guard.append(cell != old)
            elif k == 'load':
                upd[('v', pi, ev['res'])] = s['cell'][ev['cell']]
            elif k == 'store':
                upd[('cell', ev['cell'])] = self.cellval(ev['val'], s, pi, ev['cell'])
            elif k in ('wgdone', 'wgadd', 'wgwait'):
                cell = s['cell'][ev['cell']]
                if k == 'wgdone': upd[('cell', ev['cell'])] = cell - 1
                elif k == 'wgadd': upd[('cell', ev['cell'])] = cell + ev.get('n', 0)
                else: guard.append(cell == 0)
            elif k == 'trylock':
                cell = s['cell'][ev['cell']]; ones = BitVecVal(-1, cell.size())
                if ev['outcome'] == 1: guard.append(cell == 0); upd[('cell', ev['cell'])] = ones
                else: guard.append(cell != 0)
            elif k in ('lock', 'unlock', 'rlock', 'runlock'):
                cell = s['cell'][ev['cell']]; ones = BitVecVal(-1, cell.size())
                if k == 'lock': guard.append(cell == 0); upd[('cell', ev['cell'])] = ones
                elif k == 'unlock': upd[('cell', ev['cell'])] = BitVecVal(0, cell.size())
                elif k == 'rlock': guard.append(cell != ones); upd[('cell', ev['cell'])] = cell + 1
                else: upd[('cell', ev['cell'])] = cell - 1
            elif k == 'start_exit':
                tokv = self.val(ev['val'], s, pi)
                if ev['outcome'] == 0:
                    guard.append(Not(self.sel(self.pinned, tokv)))
                else:
                    guard.append(BoolVal(self.panics))
            elif k == 'branch':
                g = parse_smt(ev['guard'], s['v'][pi])
                guard.append(g if ev['outcome'] == 1 else Not(g))
            elif k in ('start_enter', 'choice', 'obs'):
                pass
            else:
                raise ValueError('event kind ' + k)
        # ghost updates from the spec
        if self.spec:
            for (pj, tr) in fired:
                for n, e in self.spec.on_transition(self, pj, tr, s, st).items():
                    upd[('g', n)] = e
        eff = []
        for i in range(len(self.procs)):
            eff.append(s2['pc'][i] == upd.get(('pc', i), s['pc'][i]))
            for n in s['v'][i]:
                eff.append(s2['v'][i][n] == upd.get(('v', i, n), s['v'][i][n]))
        for cid, c in self.chans.items():
            eff.append(s2['closed'][cid] == upd.get(('closed', cid), s['closed'][cid]))
            eff.append(s2['cnt'][cid] == upd.get(('cnt', cid), s['cnt'][cid]))
            for i in range(c['cap']):
                eff.append(s2['slot'][cid][i] == upd.get(('slot', cid, i), s['slot'][cid][i]))
        for n in s['cell']:
            eff.append(s2['cell'][n] == upd.get(('cell', n), s['cell'][n]))
        for n in s['g']:
            eff.append(s2['g'][n] == upd.get(('g', n), s['g'][n]))
        return And(*guard), And(*eff)

    def sel(self, lst, idx):
        """lst[idx] for a python list of z3 exprs and a bit-vector index (out of range: last)"""
        r = lst[-1]
        for i in range(len(lst) - 2, -1, -1):
            r = If(idx == i, lst[i], r)
        return r

    def trans(self, s, s2, choice=None):
        """transition relation; if choice (an Int-like BV) is given, it names the step taken"""
        ds = []
        for i, st in enumerate(self.steps):
            g, e = self.step_formula(st, s, s2)
            f = And(g, e)
            if choice is not None:
                f = And(choice == i, f)
            ds.append(f)
        return Or(*ds)

    def enabled(self, st, s):
        g, _ = self.step_formula(st, s, s)
        return g

    # ---- liveness of token registers per location (backward data flow over the automaton)
    def live_regs(self):
        if self._live is not None: return self._live
        res = []
        for pi, p in enumerate(self.procs):
            regs = [n for n, w in p['vars'].items() if w == 0]
            live = {l: set() for l in range(p['nlocs'])}
            def uses(ev):
                u = set()
                def vx(v):
                    if v and v.get('kind') in ('reg',) : u.add(v['reg'])
                    # (a panic value derived from a token register does not keep the token itself alive)
                if ev['kind'] == 'select' and ev['outcome'] >= 0:
                    vx(ev['cases'][ev['outcome']].get('val'))
                if ev['kind'] in ('start_enter', 'store', 'atomic'):
                    vx(ev.get('val'))
                if ev['kind'] == 'obs':
                    for a in ev.get('args') or []: vx(a)
                return u
            def defs(ev):
                d = set()
                if ev['kind'] == 'select' and ev['outcome'] >= 0:
                    cs = ev['cases'][ev['outcome']]
                    if cs['dir'] == 'recv' and cs.get('res'): d.add(cs['res'])
                return d
            ch = True
            while ch:
                ch = False
                for t in p['trans']:
                    new = uses(t['ev']) | (live[t['to']] - defs(t['ev']))
                    new &= set(regs)
                    if not new <= live[t['from']]:
                        live[t['from']] |= new; ch = True
            res.append(live)
        self._live = res
        return res

    # ---- monotone facts: a channel nobody sends on can only be received from once it is closed, and it
    # stays closed; so at every location all of whose paths pass such a receive, the channel is closed,
    # and a `default` outcome of a non-blocking select that looks at it is dead there.
    def closed_facts(self):
        if getattr(self, '_cf', None) is not None: return self._cf
        senders = set()
        for p in self.procs:
            for t in p['trans']:
                if t['ev']['kind'] == 'select':
                    for cs in t['ev']['cases']:
                        if cs['dir'] == 'send': senders.add(cs['chan'])
        facts = []   # per process: {loc: set(chans)}
        dead = []    # per process: set of transition indices
        def analyse(p, deadp):
            n = p['nlocs']
            cl = {l: None for l in range(n)}   # None = unreached (top)
            cl[p['init']] = set()
            ch = True
            while ch:
                ch = False
                for ti, t in enumerate(p['trans']):
                    if cl[t['from']] is None or ti in deadp: continue
                    cur = set(cl[t['from']])
                    ev = t['ev']
                    if ev['kind'] == 'select' and ev['outcome'] >= 0:
                        cs = ev['cases'][ev['outcome']]
                        if cs['dir'] == 'recv' and cs['chan'] >= 0 and cs['chan'] not in senders: cur.add(cs['chan'])
                    new = cur if cl[t['to']] is None else (cl[t['to']] & cur)
                    if cl[t['to']] is None or new != cl[t['to']]:
                        cl[t['to']] = new; ch = True
            return cl
        for pi, p in enumerate(self.procs):
            deadp = set()
            while True:
                cl = analyse(p, deadp)
                nd = set()
                for ti, t in enumerate(p['trans']):
                    ev = t['ev']
                    if ev['kind'] == 'select' and ev['outcome'] == -1 and cl[t['from']] is not None and any(cs['dir'] == 'recv' and cs['chan'] in cl[t['from']] for cs in ev['cases']):
                        nd.add(ti)
                if nd <= deadp: break
                deadp |= nd
            facts.append({l: (v or set()) for l, v in cl.items()})
            dead.append(deadp)
        self._cf = (facts, dead)
        return self._cf

    def live_trans(self, pi):
        """transitions of process pi that are not dead by closed_facts"""
        _, dead = self.closed_facts()
        return [t for ti, t in enumerate(self.procs[pi]['trans']) if ti not in dead[pi]]

    def wgzero_facts(self, s):
        """a WaitGroup nobody Adds to only decreases: after passing Wait() it is zero for good"""
        f = []
        adders = {t['ev']['cell'] for p in self.procs for t in p['trans'] if t['ev']['kind'] == 'wgadd'}
        for pi, p in enumerate(self.procs):
            for cell in {t['ev']['cell'] for t in p['trans'] if t['ev']['kind'] == 'wgwait'} - adders:
                val = {l: None for l in range(p['nlocs'])}
                val[p['init']] = False
                ch = True
                while ch:
                    ch = False
                    for t in p['trans']:
                        if val[t['from']] is None: continue
                        v = val[t['from']] or (t['ev']['kind'] == 'wgwait' and t['ev']['cell'] == cell)
                        nv = v if val[t['to']] is None else (val[t['to']] and v)
                        if val[t['to']] is None or nv != val[t['to']]:
                            val[t['to']] = nv; ch = True
                for l, v in val.items():
                    if v: f.append(Implies(s['pc'][pi] == l, s['cell'][cell] == 0))
        return f

    def closer_facts(self, s):
        """a channel closed by a single transition: it is closed iff its closer is past that transition"""
        f = []
        closes = {}
        for pi, p in enumerate(self.procs):
            for t in p['trans']:
                if t['ev']['kind'] == 'close': closes.setdefault(t['ev']['chan'], []).append((pi, t))
        for c, lst in closes.items():
            if len({pi for pi, _ in lst}) != 1: continue
            pi = lst[0][0]; p = self.procs[pi]
            may = set(); work = [t['to'] for _, t in lst]
            while work:
                l = work.pop()
                if l in may: continue
                may.add(l)
                work += [t['to'] for t in p['trans'] if t['from'] == l]
            f.append(Implies(s['closed'][c], Or(*[s['pc'][pi] == l for l in may])))
            pre = set(range(p['nlocs'])) - may
            # locations that can only be reached through the close
            srcs = {t['from'] for _, t in lst}
            must = {l for l in may if l not in srcs and all((t['from'] in may and t['from'] not in srcs) or any(t is ct for _, ct in lst) for t in p['trans'] if t['to'] == l)}
            for l in must:
                f.append(Implies(s['pc'][pi] == l, s['closed'][c]))
        return f

    def mutex_facts(self, s):
        """a mutex is locked iff exactly one process is between its Lock and Unlock"""
        f = []
        for n, c in self.cells.items():
            if c['kind'] != 'mutex': continue
            held_any = []
            for pi, p in enumerate(self.procs):
                if not any(t['ev']['kind'] in ('lock', 'unlock', 'trylock') and t['ev']['cell'] == n for t in p['trans']): continue
                val = {l: None for l in range(p['nlocs'])}
                val[p['init']] = frozenset([False])
                ch = True
                while ch:
                    ch = False
                    for t in p['trans']:
                        if val[t['from']] is None: continue
                        vs = set(val[t['from']])
                        if t['ev']['kind'] == 'lock' and t['ev']['cell'] == n: vs = {True}
                        if t['ev']['kind'] == 'trylock' and t['ev']['cell'] == n and t['ev']['outcome'] == 1: vs = {True}
                        if t['ev']['kind'] == 'unlock' and t['ev']['cell'] == n: vs = {False}
                        nv = frozenset(vs) if val[t['to']] is None else frozenset(vs | set(val[t['to']]))
                        if nv != val[t['to']]:
                            val[t['to']] = nv; ch = True
                must = [l for l, v in val.items() if v == frozenset([True])]
                may = [l for l, v in val.items() if v is not None and True in v]
                if set(must) != set(may):
                    continue  # ambiguous locations: no fact for this process
                held_any.append(Or(*[s['pc'][pi] == l for l in must]) if must else BoolVal(False))
            ones = BitVecVal(-1, s['cell'][n].size())
            f.append(Or(s['cell'][n] == 0, s['cell'][n] == ones))
            f.append((s['cell'][n] == ones) == Or(*held_any) if held_any else s['cell'][n] == 0)
            f.append(ULE(count(held_any), 1))
        return f

    def closed_inv(self, s):
        facts, _ = self.closed_facts()
        f = self.wgzero_facts(s) + self.closer_facts(s) + self.mutex_facts(s)
        for pi, fc in enumerate(facts):
            for l, chans in fc.items():
                for c in chans:
                    f.append(Implies(s['pc'][pi] == l, s['closed'][c]))
        return f

    def occ(self, s, k):
        """number of places holding token k: buffered channel slots below the count, live token registers"""
        terms = []
        kv = BitVecVal(k, self.tb)
        one, zero = BitVecVal(1, 8), BitVecVal(0, 8)
        for cid, c in self.chans.items():
            if c['elem'] != 'tok': continue
            for i in range(c['cap']):
                terms.append(If(And(ULT(i, s['cnt'][cid]), s['slot'][cid][i] == kv), one, zero))
        live = self.live_regs()
        for pi, p in enumerate(self.procs):
            for l in range(p['nlocs']):
                for r in live[pi][l]:
                    terms.append(If(And(s['pc'][pi] == l, s['v'][pi][r] == kv), one, zero))
        return bvsum(terms)

    def wellformed(self, s):
        f = []
        live = self.live_regs()
        for pi, p in enumerate(self.procs):
            f.append(ULT(s['pc'][pi], p['nlocs']) if p['nlocs'] < (1 << self.pcw[pi]) else BoolVal(True))
            for l in range(p['nlocs']):
                for r in live[pi][l]:
                    f.append(Implies(s['pc'][pi] == l, ULT(s['v'][pi][r], self.N)))
        f += self.closed_inv(s)
        closable = {t['ev']['chan'] for p in self.procs for t in p['trans'] if t['ev']['kind'] == 'close'}
        senders = {cs['chan'] for p in self.procs for t in p['trans'] if t['ev']['kind'] == 'select' for cs in t['ev']['cases'] if cs['dir'] == 'send'}
        for cid, c in self.chans.items():
            if cid not in senders:
                f.append(s['cnt'][cid] == 0)     # nobody sends on this channel
            if cid not in closable:
                f.append(Not(s['closed'][cid]))  # no transition closes this channel
            f.append(ULE(s['cnt'][cid], c['cap']))
            if c['elem'] == 'tok':
                for i in range(c['cap']):
                    f.append(Implies(ULT(i, s['cnt'][cid]), ULT(s['slot'][cid][i], self.N)))
        return And(*f)

# ------------------------------------------------------------------ queries
_IND = None

def _ind_one(i):
    ck, pre, post_bad, s, s2, name = _IND
    m = ck.m
    st = m.steps[i]
    g, e = m.step_formula(st, s, s2)
    sv = Solver()
    sv.set('timeout', ck.timeout)
    for f in pre: sv.add(f)
    sv.add(g, e, post_bad)
    t0 = time.time()
    r = sv.check()
    dt = time.time() - t0
    desc = ck.describe(sv.model(), s) if r == sat else None
    return (m.label(st), str(r), dt, desc)


class Checker:
    def __init__(self, model, timeout_ms=120000):
        self.m = model
        self.timeout = timeout_ms
        self.stats = {'queries': 0, 'solver_s': 0.0, 'unknown': 0, 'obligations': []}

    def solve(self, fs, name, want=None):
        sv = SolverFor('QF_BV') if False else Solver()
        sv.set('timeout', self.timeout)
        for f in fs: sv.add(f)
        t0 = time.time()
        r = sv.check()
        dt = time.time() - t0
        self.stats['queries'] += 1
        self.stats['solver_s'] += dt
        if r == unknown: self.stats['unknown'] += 1
        self.stats['obligations'].append({'name': name, 'result': str(r), 's': round(dt, 3)})
        return r, (sv.model() if r == sat else None)

    def bmc(self, K, bad, name, assume=None):
        """is a state satisfying bad(s) reachable within K steps? returns (result, trace)"""
        m = self.m
        S = [m.state('b%d' % i) for i in range(K + 1)]
        ch = [BitVec('step_%d' % i, 16) for i in range(K)]
        fs = [m.init(S[0])]
        for i in range(K):
            fs.append(Or(m.trans(S[i], S[i + 1], ch[i]), And(ch[i] == 0xFFFF, *[a == b for a, b in zip(m.flat(S[i]), m.flat(S[i + 1]))])))
        if assume is not None:
            for i in range(K + 1): fs.append(assume(S[i]))
        fs.append(Or(*[bad(S[i]) for i in range(K + 1)]))
        r, mod = self.solve(fs, name)
        trace = None
        if mod is not None:
            trace = []
            for i in range(K):
                c = mod.eval(ch[i], model_completion=True).as_long()
                if c != 0xFFFF:
                    trace.append(m.label(m.steps[c]))
        return r, trace

    def induct(self, inv, name, extra_pre=None):
        """Init => inv ; inv /\\ T => inv'. Returns list of failures (each with a CTI description)."""
        m = self.m
        fails = []
        s0 = m.state('i0')
        r, mod = self.solve([m.init(s0), Not(inv(s0))], name + ':init')
        if r != unsat: fails.append(('init', r, None))
        s, s2 = m.state('pre'), m.state('post')
        pre = [inv(s)]
        if extra_pre is not None: pre.append(extra_pre(s))
        post_bad = Not(inv(s2))
        # one query per step keeps the obligations small and names the offending transition;
        # the steps are independent and are discharged by forked worker processes
        global _IND
        _IND = (self, pre, post_bad, s, s2, name)
        nproc = min(int(os.environ.get('VX_E2_PROCS', '12')), max(1, len(m.steps)))
        if nproc <= 1:
            results = [_ind_one(i) for i in range(len(m.steps))]
        else:
            import multiprocessing as mp
            with mp.get_context('fork').Pool(nproc) as pool:
                results = pool.map(_ind_one, range(len(m.steps)), chunksize=max(1, len(m.steps) // (nproc * 4)))
        for label, r, dt, desc in results:
            self.stats['queries'] += 1
            self.stats['solver_s'] += dt
            if r == 'unknown': self.stats['unknown'] += 1
            self.stats['obligations'].append({'name': name + ':step:' + label, 'result': r, 's': round(dt, 3)})
            if r != 'unsat':
                fails.append((label, r, desc))
        return fails

    def describe(self, mod, s):
        m = self.m
        d = {'pc': [mod.eval(x, model_completion=True).as_long() for x in s['pc']]}
        d['cnt'] = {str(c): mod.eval(s['cnt'][c], model_completion=True).as_long() for c in s['cnt']}
        d['g'] = {n: str(mod.eval(v, model_completion=True)) for n, v in s['g'].items()}
        d['cell'] = {n: mod.eval(v, model_completion=True).as_long() for n, v in s['cell'].items()}
        return d
