package logger

import (
	"context"
	"errors"
	"log/slog"
	"math"
	"time"
)

// C01.b (strings in structure) and C01.c (value kinds)

func H_C01b_strings() {
	pos := vxPick(9)
	s := vxString(vxParam("strLen"))
	str := func(i int, def string) string {
		if pos == i {
			return s
		}
		return def
	}
	name := str(0, "G")
	vxAssume(name != "") // Logger.WithGroup ignores an empty name
	w := &c01Rec{}
	l := New(NewJsonHandler(w, NewOptions(LevelDebug, false, false)))
	l = l.With(slog.String(str(1, "wk"), str(2, "wv"))).WithGroup(name)
	gk := str(6, "g")
	msg := str(3, "msg")
	l.Info(msg,
		slog.String(str(4, "k"), str(5, "v")),
		slog.Group(gk, slog.String(str(7, "nk"), "nv")),
		slog.Any("e", errors.New(str(8, "err"))))
	v := func(x string) string { return string(specToValidUTF8(x)) }
	exp := []c01Leaf{
		{path: []string{v(str(1, "wk"))}, tok: v(str(2, "wv")), isStr: true},
		{path: []string{v(name), v(str(4, "k"))}, tok: v(str(5, "v")), isStr: true},
	}
	if gk == "" {
		exp = append(exp, c01Leaf{path: []string{v(name), v(str(7, "nk"))}, tok: "nv", isStr: true})
	} else {
		exp = append(exp, c01Leaf{path: []string{v(name), v(gk), v(str(7, "nk"))}, tok: "nv", isStr: true})
	}
	exp = append(exp, c01Leaf{path: []string{v(name), "e"}, tok: v(str(8, "err")), isStr: true})
	if len(s) == 2 {
		vxReach("two-byte symbolic string in structure")
	}
	c01CheckLine(w, 1, msg, false, exp)
}

// a json.Marshaler whose behaviour the harness chooses
type c01Marsh struct {
	out []byte
	err error
}

func (m c01Marsh) MarshalJSON() ([]byte, error) { return m.out, m.err }

type c01Struct struct {
	A int
	B string
}

func H_C01c_values() {
	w := &c01Rec{}
	l := New(NewJsonHandler(w, NewOptions(LevelDebug, false, false)))
	var a slog.Attr
	var exp []c01Leaf
	anyValue := false // the member's value is whatever encoding/json produced (contract stub): only validity is checked
	strOnly := false  // the member must be a JSON string (content not compared)
	k := "k"
	switch vxPick(19) {
	case 0:
		a = slog.Int64(k, math.MinInt64)
		exp = []c01Leaf{{path: []string{k}, tok: "-9223372036854775808"}}
	case 1:
		a = slog.Int64(k, math.MaxInt64)
		exp = []c01Leaf{{path: []string{k}, tok: "9223372036854775807"}}
	case 2:
		a = slog.Uint64(k, math.MaxUint64)
		exp = []c01Leaf{{path: []string{k}, tok: "18446744073709551615"}}
	case 3:
		a = slog.Bool(k, false)
		exp = []c01Leaf{{path: []string{k}, tok: "false"}}
	case 4:
		a = slog.Duration(k, -time.Hour)
		exp = []c01Leaf{{path: []string{k}, tok: "-3600000000000"}}
	case 5:
		a = slog.Time(k, time.Unix(951782400, 1000).UTC())
		exp = []c01Leaf{{path: []string{k}, tok: "2000-02-29T00:00:00.000001Z", isStr: true}}
	case 6:
		a = slog.Float64(k, math.NaN()) // encoding/json refuses NaN: must come out as an error string
		anyValue = true
	case 7:
		a = slog.Float64(k, 0.1)
		anyValue = true
	case 8:
		msg := vxString(2)
		a = slog.Any(k, errors.New(msg))
		exp = []c01Leaf{{path: []string{k}, tok: string(specToValidUTF8(msg)), isStr: true}}
	case 9:
		v := vxString(2)
		a = slog.Any(k, AnsiString{"\x1b[31m", v})
		exp = []c01Leaf{{path: []string{k}, tok: string(specToValidUTF8(v)), isStr: true}}
	case 10:
		a = slog.Any(k, nil)
		anyValue = true
	case 11:
		a = slog.Any(k, []byte{0, 1, 0xff})
		anyValue = true
	case 12:
		a = slog.Any(k, map[string]int{"age": 18})
		anyValue = true
	case 13:
		a = slog.Any(k, c01Struct{1, "x"})
		anyValue = true
	case 14: // Marshaler that succeeds with a valid text
		a = slog.Any(k, c01Marsh{out: []byte(`{"in":[1,"two"]}`)})
		exp = []c01Leaf{{path: []string{k, "in"}, tok: `[1,"two"]`}}
	case 15: // Marshaler that fails
		msg := vxString(2)
		a = slog.Any(k, c01Marsh{err: errors.New(msg)})
		exp = []c01Leaf{{path: []string{k}, tok: string(specToValidUTF8(msg)), isStr: true}}
		vxReach("marshaler error rendered as string")
	case 16: // Marshaler that returns garbage
		g := vxString(2)
		vxAssume(len(g) > 0 && g[0] == '}')
		a = slog.Any(k, c01Marsh{out: []byte(g)})
		strOnly = true
	case 17: // LogValuer resolving to an error value
		msg := vxString(1)
		a = slog.Any(k, c01Valuer{slog.AnyValue(errors.New(msg))})
		exp = []c01Leaf{{path: []string{k}, tok: string(specToValidUTF8(msg)), isStr: true}}
	case 18: // LogValuer resolving to an empty group
		a = slog.Any(k, c01Valuer{slog.GroupValue()})
	}
	l.Log(context.Background(), LevelWarn, "m", slog.Int("first", 1), a, slog.Int("last", 2))
	vxAssert(len(w.writes) == 1, "C01: record did not produce exactly one Write")
	line := w.writes[0]
	vxPrint(string(line))
	leaves, ok := specJSONLine(line)
	vxAssert(ok, "C01: line with this value kind does not parse as a single JSON object")
	vxAssert(len(leaves) >= 5, "C01: members missing")
	vxAssert(len(leaves[3].path) == 1 && leaves[3].path[0] == "first" && leaves[3].tok == "1", "C01: preceding attribute damaged")
	last := leaves[len(leaves)-1]
	vxAssert(len(last.path) == 1 && last.path[0] == "last" && last.tok == "2", "C01: following attribute damaged")
	mid := leaves[4 : len(leaves)-1]
	if anyValue || strOnly {
		for _, lf := range mid {
			vxAssert(len(lf.path) >= 1 && lf.path[0] == k, "C01: value leaked outside its member")
		}
		if strOnly {
			vxAssert(len(mid) == 1 && mid[0].isStr, "C01: unencodable value is not rendered as an error string")
		}
		return
	}
	vxAssert(len(mid) == len(exp), "C01: value kind produced the wrong members")
	for i, e := range exp {
		vxAssert(c01SamePath(mid[i].path, e.path), "C01: value member path differs")
		vxAssert(mid[i].isStr == e.isStr && mid[i].tok == e.tok, "C01: value differs from the expected rendering")
	}
}
