package logger

// C01.b/c oracle (DESIGN.md Appendix B.2): an independent recursive-descent JSON parser over the
// bytes written, producing the ordered list of leaves (path of decoded keys, value token).

type c01Leaf struct {
	path  []string // decoded keys from the top-level object down to the member itself
	tok   string   // decoded string value, or the raw token text for numbers/literals/arrays
	isStr bool
}

type c01Parser struct {
	b      []byte
	i      int
	leaves []c01Leaf
}

func (p *c01Parser) ws() {
	for p.i < len(p.b) && (p.b[p.i] == ' ' || p.b[p.i] == '\t') {
		p.i++
	}
}

// str parses a JSON string at p.i and returns its decoded value.
func (p *c01Parser) str() (string, bool) {
	if p.i >= len(p.b) || p.b[p.i] != '"' {
		return "", false
	}
	j := p.i + 1
	for j < len(p.b) && p.b[j] != '"' {
		if p.b[j] == '\\' {
			j++
		}
		j++
	}
	if j >= len(p.b) {
		return "", false
	}
	dec, ok := specJSONStringDecode(p.b[p.i+1 : j])
	if !ok {
		return "", false
	}
	p.i = j + 1
	return string(dec), true
}

func c01Digit(c byte) bool { return c >= '0' && c <= '9' }

// number per RFC 8259 section 6
func (p *c01Parser) number() (string, bool) {
	s := p.i
	if p.i < len(p.b) && p.b[p.i] == '-' {
		p.i++
	}
	if p.i >= len(p.b) || !c01Digit(p.b[p.i]) {
		return "", false
	}
	if p.b[p.i] == '0' {
		p.i++
	} else {
		for p.i < len(p.b) && c01Digit(p.b[p.i]) {
			p.i++
		}
	}
	if p.i < len(p.b) && p.b[p.i] == '.' {
		p.i++
		if p.i >= len(p.b) || !c01Digit(p.b[p.i]) {
			return "", false
		}
		for p.i < len(p.b) && c01Digit(p.b[p.i]) {
			p.i++
		}
	}
	if p.i < len(p.b) && (p.b[p.i] == 'e' || p.b[p.i] == 'E') {
		p.i++
		if p.i < len(p.b) && (p.b[p.i] == '+' || p.b[p.i] == '-') {
			p.i++
		}
		if p.i >= len(p.b) || !c01Digit(p.b[p.i]) {
			return "", false
		}
		for p.i < len(p.b) && c01Digit(p.b[p.i]) {
			p.i++
		}
	}
	return string(p.b[s:p.i]), true
}

func (p *c01Parser) lit(w string) bool {
	if p.i+len(w) <= len(p.b) && string(p.b[p.i:p.i+len(w)]) == w {
		p.i += len(w)
		return true
	}
	return false
}

// value parses any JSON value; scalars become leaves at path, objects recurse, arrays are one raw leaf.
func (p *c01Parser) value(path []string, depth int) bool {
	if depth > 8 || p.i >= len(p.b) {
		return false
	}
	switch c := p.b[p.i]; {
	case c == '{':
		return p.object(path, depth+1)
	case c == '"':
		s, ok := p.str()
		if !ok {
			return false
		}
		p.leaves = append(p.leaves, c01Leaf{path: path, tok: s, isStr: true})
		return true
	case c == '[':
		s := p.i
		p.i++
		p.ws()
		if p.i < len(p.b) && p.b[p.i] == ']' {
			p.i++
		} else {
			for {
				sub := &c01Parser{b: p.b, i: p.i}
				if !sub.value(nil, depth+1) {
					return false
				}
				p.i = sub.i
				p.ws()
				if p.i < len(p.b) && p.b[p.i] == ',' {
					p.i++
					p.ws()
					continue
				}
				if p.i < len(p.b) && p.b[p.i] == ']' {
					p.i++
					break
				}
				return false
			}
		}
		p.leaves = append(p.leaves, c01Leaf{path: path, tok: string(p.b[s:p.i])})
		return true
	case c == 't':
		if !p.lit("true") {
			return false
		}
		p.leaves = append(p.leaves, c01Leaf{path: path, tok: "true"})
		return true
	case c == 'f':
		if !p.lit("false") {
			return false
		}
		p.leaves = append(p.leaves, c01Leaf{path: path, tok: "false"})
		return true
	case c == 'n':
		if !p.lit("null") {
			return false
		}
		p.leaves = append(p.leaves, c01Leaf{path: path, tok: "null"})
		return true
	default:
		n, ok := p.number()
		if !ok {
			return false
		}
		p.leaves = append(p.leaves, c01Leaf{path: path, tok: n})
		return true
	}
}

func (p *c01Parser) object(path []string, depth int) bool {
	if p.i >= len(p.b) || p.b[p.i] != '{' {
		return false
	}
	p.i++
	p.ws()
	if p.i < len(p.b) && p.b[p.i] == '}' {
		p.i++
		return true
	}
	for {
		k, ok := p.str()
		if !ok {
			return false
		}
		p.ws()
		if p.i >= len(p.b) || p.b[p.i] != ':' {
			return false
		}
		p.i++
		p.ws()
		np := make([]string, len(path)+1)
		copy(np, path)
		np[len(path)] = k
		if !p.value(np, depth) {
			return false
		}
		p.ws()
		if p.i < len(p.b) && p.b[p.i] == ',' {
			p.i++
			p.ws()
			continue
		}
		if p.i < len(p.b) && p.b[p.i] == '}' {
			p.i++
			return true
		}
		return false
	}
}

// specJSONLine: the line must be exactly one JSON object followed by exactly one '\n'.
func specJSONLine(line []byte) ([]c01Leaf, bool) {
	if len(line) < 3 || line[len(line)-1] != '\n' {
		return nil, false
	}
	p := &c01Parser{b: line[:len(line)-1]}
	if !p.object(nil, 0) {
		return nil, false
	}
	if p.i != len(p.b) {
		return nil, false
	}
	return p.leaves, true
}

func c01SamePath(a, b []string) bool {
	if len(a) != len(b) {
		return false
	}
	for i := range a {
		if a[i] != b[i] {
			return false
		}
	}
	return true
}
