package logger

import (
	"context"
	"log/slog"
	"runtime"
	"strconv"
	"time"
)

// C01.b — structure: derivation chains x attribute trees (keyed / inline / empty groups, LogValuer)
// must yield one valid JSON object line whose leaves, in order, are the expected ones.

// recording destination
type c01Rec struct {
	writes [][]byte
}

func (w *c01Rec) Write(p []byte) (int, error) {
	cp := make([]byte, len(p))
	copy(cp, p)
	w.writes = append(w.writes, cp)
	return len(p), nil
}

type c01Valuer struct{ v slog.Value }

func (l c01Valuer) LogValue() slog.Value { return l.v }

type c01Gen struct {
	exp     []c01Leaf
	n       int // key counter
	maxKids int
	symLeft int // how many symbolic leaves may still be generated
}

func (g *c01Gen) key() string {
	g.n++
	return "k" + strconv.Itoa(g.n)
}

func c01Path(path []string, k string) []string {
	np := make([]string, len(path)+1)
	copy(np, path)
	np[len(path)] = k
	return np
}

func (g *c01Gen) strLeaf(path []string) slog.Attr {
	k := g.key()
	g.exp = append(g.exp, c01Leaf{path: c01Path(path, k), tok: "v" + k, isStr: true})
	return slog.String(k, "v"+k)
}

// kid: member of a nested group: leaf, empty inline group, empty keyed group, inline group with one leaf
func (g *c01Gen) kid(path []string) slog.Attr {
	switch vxPick(6) {
	case 0:
		return g.strLeaf(path)
	case 1:
		return slog.Group("")
	case 2:
		return slog.Group(g.key())
	case 3:
		// (slog strips literal empty groups from a group's members; a LogValuer is resolved only by the handler)
		return slog.Any("", c01Valuer{slog.GroupValue()}) // writes nothing
	case 4:
		return slog.Any(g.key(), c01Valuer{slog.GroupValue()}) // "k":{}
	}
	return slog.Group("", g.strLeaf(path))
}

func (g *c01Gen) kids(path []string) []any {
	n := vxPick(g.maxKids + 1)
	out := make([]any, 0, n)
	for i := 0; i < n; i++ {
		out = append(out, g.kid(path))
	}
	return out
}

// attr: a top-level attribute of any shape; its expected leaves are appended to g.exp
func (g *c01Gen) attr(path []string) slog.Attr {
	nk := 8
	if g.symLeft > 0 {
		nk = 9
	}
	switch vxPick(nk) {
	case 0:
		return g.strLeaf(path)
	case 1:
		k := g.key()
		g.exp = append(g.exp, c01Leaf{path: c01Path(path, k), tok: "-42"})
		return slog.Int(k, -42)
	case 2: // keyed group
		k := g.key()
		return slog.Group(k, g.kids(c01Path(path, k))...)
	case 3: // inline group
		return slog.Group("", g.kids(path)...)
	case 4: // LogValuer -> string
		k := g.key()
		g.exp = append(g.exp, c01Leaf{path: c01Path(path, k), tok: "lv", isStr: true})
		return slog.Any(k, c01Valuer{slog.StringValue("lv")})
	case 5: // LogValuer -> group under a key
		k := g.key()
		kids := g.kids(c01Path(path, k))
		as := make([]slog.Attr, len(kids))
		for i := range kids {
			as[i] = kids[i].(slog.Attr)
		}
		return slog.Any(k, c01Valuer{slog.GroupValue(as...)})
	case 6: // LogValuer -> group with empty key (inline)
		kids := g.kids(path)
		as := make([]slog.Attr, len(kids))
		for i := range kids {
			as[i] = kids[i].(slog.Attr)
		}
		return slog.Any("", c01Valuer{slog.GroupValue(as...)})
	case 7: // bool leaf
		k := g.key()
		g.exp = append(g.exp, c01Leaf{path: c01Path(path, k), tok: "true"})
		return slog.Bool(k, true)
	}
	// symbolic key and value (1 byte each): escaping flows through structure
	g.symLeft--
	k := vxString(1)
	v := vxString(1)
	g.exp = append(g.exp, c01Leaf{path: c01Path(path, string(specToValidUTF8(k))), tok: string(specToValidUTF8(v)), isStr: true})
	return slog.String(k, v)
}

var c01Levels = []slog.Level{LevelDebug, LevelInfo, LevelWarn, LevelError, LevelFatal}
var c01LevelNames = []string{"DEBUG", "INFO", "WARN", "ERROR", "FATAL"}

func c01CheckLine(w *c01Rec, lvl int, msg string, source bool, exp []c01Leaf) {
	vxAssert(len(w.writes) == 1, "C01: record did not produce exactly one Write")
	line := w.writes[0]
	vxPrint(string(line))
	nl := 0
	for _, c := range line {
		if c == '\n' {
			nl++
		}
	}
	vxAssert(nl == 1 && line[len(line)-1] == '\n', "C01: record is not exactly one newline-terminated line")
	leaves, ok := specJSONLine(line)
	vxAssert(ok, "C01: line does not parse as a single JSON object")
	fixed := 3
	if source {
		fixed = 5
	}
	vxAssert(len(leaves) == fixed+len(exp), "C01: decoded object has the wrong number of members")
	vxAssert(len(leaves[0].path) == 1 && leaves[0].path[0] == "time" && leaves[0].isStr && len(leaves[0].tok) >= 20, "C01: time member missing")
	vxAssert(len(leaves[1].path) == 1 && leaves[1].path[0] == "level" && leaves[1].isStr && leaves[1].tok == c01LevelNames[lvl], "C01: level member wrong")
	m := 2
	if source {
		vxAssert(len(leaves[2].path) == 2 && leaves[2].path[0] == "source" && leaves[2].path[1] == "file" && leaves[2].isStr, "C01: source.file missing")
		vxAssert(len(leaves[3].path) == 2 && leaves[3].path[0] == "source" && leaves[3].path[1] == "line" && !leaves[3].isStr, "C01: source.line missing")
		m = 4
	}
	vxAssert(len(leaves[m].path) == 1 && leaves[m].path[0] == "msg" && leaves[m].isStr && leaves[m].tok == string(specToValidUTF8(msg)), "C01: msg member wrong")
	for i, e := range exp {
		got := leaves[fixed+i]
		vxAssert(c01SamePath(got.path, e.path), "C01: attribute path/order differs from the expected one")
		vxAssert(got.isStr == e.isStr && got.tok == e.tok, "C01: attribute value differs from the expected one")
	}
}

// chain step: WithGroup(name) or With(one attribute)
func c01Step(l *Logger, g *c01Gen, path []string) (*Logger, []string) {
	if vxPick(2) == 0 {
		name := "G" + g.key()
		return l.WithGroup(name), c01Path(path, name)
	}
	return l.With(g.attr(path)), path
}

func c01Run(maxChain, maxList, maxKids, sym int) {
	w := &c01Rec{}
	l := New(NewJsonHandler(w, NewOptions(LevelDebug, false, false)))
	g := &c01Gen{maxKids: maxKids, symLeft: sym}
	var path []string
	nc := vxPick(maxChain + 1)
	for i := 0; i < nc; i++ {
		l, path = c01Step(l, g, path)
	}
	na := vxPick(maxList + 1)
	args := make([]any, 0, na)
	for i := 0; i < na; i++ {
		args = append(args, g.attr(path))
	}
	if nc > 0 && na > 0 {
		vxReach("derived logger with call-site attrs")
	}
	l.Log(context.Background(), LevelInfo, "m", args...)
	c01CheckLine(w, 1, "m", false, g.exp)
}

func H_C01b_call() {
	c01Run(vxParam("callChain"), vxParam("callList"), vxParam("kids"), 0)
}

func H_C01b_chain() {
	c01Run(vxParam("chainChain"), vxParam("chainList"), vxParam("kids"), 0)
}

// inline groups in depth: up to 3 members of every kind, as first or later member of each kind of scope,
// followed or not by another attribute, given at the call site or through With()
func H_C01b_inline() {
	w := &c01Rec{}
	l := New(NewJsonHandler(w, NewOptions(LevelDebug, false, false)))
	g := &c01Gen{maxKids: vxParam("inlineKids")}
	var path []string
	scope := vxPick(3)
	if scope == 1 {
		l = l.WithGroup("G")
		path = []string{"G"}
	}
	var attrs []any
	inner := path
	if scope == 2 {
		inner = c01Path(path, "K")
	}
	if vxPick(2) == 1 {
		attrs = append(attrs, g.strLeaf(inner))
	}
	attrs = append(attrs, slog.Group("", g.kids(inner)...))
	if vxPick(2) == 1 {
		attrs = append(attrs, g.strLeaf(inner))
		vxReach("inline group followed by an attribute")
	}
	if scope == 2 {
		attrs = []any{slog.Group("K", attrs...)}
	}
	if vxPick(2) == 1 {
		l = l.With(attrs...)
		attrs = nil
	}
	l.Log(context.Background(), LevelInfo, "m", attrs...)
	c01CheckLine(w, 1, "m", false, g.exp)
}

// the handlers show the caller's file by its last two path elements (directory/file.go); a shorter path is shown whole
func c01ShortFile(file string) string {
	n := 0
	for i := len(file) - 1; i >= 0; i-- {
		if file[i] == '/' {
			n++
			if n == 2 {
				return file[i+1:]
			}
		}
	}
	return file
}

// levels, source on, symbolic message; source.file / source.line are the caller's (in the engine the pc resolves to
// each of rtstubs.go's frameFiles in turn, natively to this file)
func H_C01b_source() {
	var pcs [1]uintptr
	runtime.Callers(1, pcs[:])
	f, _ := runtime.CallersFrames(pcs[:]).Next()
	w := &c01Rec{}
	lv := vxPick(5)
	h := NewJsonHandler(w, NewOptions(LevelDebug, false, true))
	msg := vxString(1)
	g := &c01Gen{maxKids: 1}
	r := slog.NewRecord(time.Now(), c01Levels[lv], msg, pcs[0])
	if vxPick(2) == 1 {
		r.AddAttrs(g.strLeaf(nil))
	}
	h.Handle(context.Background(), r)
	vxReach("source enabled")
	c01CheckLine(w, lv, msg, true, g.exp)
	leaves, _ := specJSONLine(w.writes[0])
	vxAssert(leaves[2].tok == string(specToValidUTF8(c01ShortFile(f.File))), "C01: source.file is not the caller's file")
	vxAssert(leaves[3].tok == strconv.Itoa(f.Line), "C01: source.line is not the caller's line")
}

func H_C01b_vacuity() {
	w := &c01Rec{}
	l := New(NewJsonHandler(w, NewOptions(LevelDebug, false, false)))
	g := &c01Gen{maxKids: 1}
	a := g.attr(nil)
	l.Info("m", a)
	leaves, ok := specJSONLine(w.writes[0])
	vxAssert(!ok || len(leaves) == 3, "vacuity twin (expected to fail)")
}
