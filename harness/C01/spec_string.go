package logger

// C01.a oracle (DESIGN.md Appendix B.1): Unicode Table 3-7 well-formedness, U+FFFD substitution per
// offending byte, and an RFC 8259 section 7 string decoder. Written from the standards, not from
// the implementation.

// specSeqLen: length of the well-formed UTF-8 sequence starting at s[i], or 0.
func specSeqLen(s []byte, i int) int {
	b0 := s[i]
	if b0 <= 0x7F {
		return 1
	}
	cont := func(k int, lo, hi byte) bool {
		return i+k < len(s) && s[i+k] >= lo && s[i+k] <= hi
	}
	switch {
	case b0 >= 0xC2 && b0 <= 0xDF:
		if cont(1, 0x80, 0xBF) {
			return 2
		}
	case b0 == 0xE0:
		if cont(1, 0xA0, 0xBF) && cont(2, 0x80, 0xBF) {
			return 3
		}
	case (b0 >= 0xE1 && b0 <= 0xEC) || b0 == 0xEE || b0 == 0xEF:
		if cont(1, 0x80, 0xBF) && cont(2, 0x80, 0xBF) {
			return 3
		}
	case b0 == 0xED:
		if cont(1, 0x80, 0x9F) && cont(2, 0x80, 0xBF) {
			return 3
		}
	case b0 == 0xF0:
		if cont(1, 0x90, 0xBF) && cont(2, 0x80, 0xBF) && cont(3, 0x80, 0xBF) {
			return 4
		}
	case b0 >= 0xF1 && b0 <= 0xF3:
		if cont(1, 0x80, 0xBF) && cont(2, 0x80, 0xBF) && cont(3, 0x80, 0xBF) {
			return 4
		}
	case b0 == 0xF4:
		if cont(1, 0x80, 0x8F) && cont(2, 0x80, 0xBF) && cont(3, 0x80, 0xBF) {
			return 4
		}
	}
	return 0
}

// specToValidUTF8: every byte that is not part of a well-formed sequence becomes U+FFFD.
func specToValidUTF8(s string) []byte {
	in := []byte(s)
	var out []byte
	for i := 0; i < len(in); {
		n := specSeqLen(in, i)
		if n == 0 {
			out = append(out, 0xEF, 0xBF, 0xBD)
			i++
			continue
		}
		out = append(out, in[i:i+n]...)
		i += n
	}
	return out
}

func specHexVal(c byte) int {
	switch {
	case c >= '0' && c <= '9':
		return int(c - '0')
	case c >= 'a' && c <= 'f':
		return int(c-'a') + 10
	case c >= 'A' && c <= 'F':
		return int(c-'A') + 10
	}
	return -1
}

func specHex4(b []byte, i int) int {
	if i+4 > len(b) {
		return -1
	}
	v := 0
	for k := 0; k < 4; k++ {
		h := specHexVal(b[i+k])
		if h < 0 {
			return -1
		}
		v = v<<4 | h
	}
	return v
}

func specAppendRune(out []byte, r int) []byte {
	switch {
	case r < 0x80:
		return append(out, byte(r))
	case r < 0x800:
		return append(out, byte(0xC0|r>>6), byte(0x80|r&0x3F))
	case r < 0x10000:
		return append(out, byte(0xE0|r>>12), byte(0x80|(r>>6)&0x3F), byte(0x80|r&0x3F))
	}
	return append(out, byte(0xF0|r>>18), byte(0x80|(r>>12)&0x3F), byte(0x80|(r>>6)&0x3F), byte(0x80|r&0x3F))
}

// specJSONStringDecode decodes the body of a JSON string (the bytes between the quotes).
func specJSONStringDecode(body []byte) (out []byte, ok bool) {
	for i := 0; i < len(body); {
		c := body[i]
		switch {
		case c < 0x20 || c == '"':
			return nil, false
		case c == '\\':
			if i+1 >= len(body) {
				return nil, false
			}
			e := body[i+1]
			i += 2
			switch e {
			case '"', '\\', '/':
				out = append(out, e)
			case 'b':
				out = append(out, 8)
			case 'f':
				out = append(out, 12)
			case 'n':
				out = append(out, 10)
			case 'r':
				out = append(out, 13)
			case 't':
				out = append(out, 9)
			case 'u':
				r := specHex4(body, i)
				if r < 0 {
					return nil, false
				}
				i += 4
				if r >= 0xDC00 && r <= 0xDFFF {
					return nil, false // lone low surrogate
				}
				if r >= 0xD800 && r <= 0xDBFF {
					if i+6 > len(body) || body[i] != '\\' || body[i+1] != 'u' {
						return nil, false
					}
					lo := specHex4(body, i+2)
					if lo < 0xDC00 || lo > 0xDFFF {
						return nil, false
					}
					i += 6
					r = 0x10000 + (r-0xD800)<<10 + (lo - 0xDC00)
				}
				out = specAppendRune(out, r)
			default:
				return nil, false
			}
		case c < 0x80:
			out = append(out, c)
			i++
		default:
			n := specSeqLen(body, i)
			if n == 0 {
				return nil, false
			}
			out = append(out, body[i:i+n]...)
			i += n
		}
	}
	return out, true
}
