package logger

// C01.a — appendJsonString: decode(escape(s)) == toValidUTF8(s) for every byte string s.

func H_C01a_escape() {
	s := vxString(vxParam("maxLen"))
	var buf []byte
	appendJsonString(&buf, s)
	dec, ok := specJSONStringDecode(buf)
	vxAssert(ok, "C01: escaped string is not a valid JSON string body (RFC 8259)")
	vxAssert(string(dec) == string(specToValidUTF8(s)), "C01: decoded JSON string differs from the input (invalid bytes -> U+FFFD)")
	if len(buf) > len(s) {
		vxReach("something escaped")
	}
	if len(s) == 4 && len(buf) == 4 && s[0] >= 0xF0 {
		vxReach("4-byte rune passed through")
	}
}

// appending to a non-empty buffer must not disturb what is there
func H_C01a_prefix() {
	s := vxString(2)
	buf := []byte{'"', 'x'}
	appendJsonString(&buf, s)
	vxAssert(buf[0] == '"' && buf[1] == 'x', "C01: appendJsonString changed existing buffer content")
	dec, ok := specJSONStringDecode(buf[2:])
	vxAssert(ok && string(dec) == string(specToValidUTF8(s)), "C01: escape after prefix differs")
}

func H_C01a_vacuity() {
	s := vxString(2)
	var buf []byte
	appendJsonString(&buf, s)
	vxAssert(len(buf) == len(s), "vacuity twin (expected to fail)")
}
