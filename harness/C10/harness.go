package config

import "strconv"

// C10 — command-line grammar (DESIGN.md section 3, C10; oracle B.5).
// The FlagSet is built directly (flags bound to struct fields through the real *xxxValue
// conversions); NewFlagSet's reflection walk is not part of this claim (C09 covers it).

type c10Cfg struct {
	B bool
	N int
	S string
}

func c10NewFlagSet(cfg *c10Cfg) *FlagSet {
	f := &FlagSet{
		ptr:          cfg,
		args:         []string{},
		flagList:     []*Flag{},
		flagMap:      make(map[string]*Flag),
		envKeyPrefix: "CFG_",
		b64ConfigEnv: "CFG_CONFIG_B64",
	}
	for _, flg := range []*Flag{
		{Name: flagNameShowUsage, Value: &f.valueShowUsage, DefValue: "false"},
		{Name: flagNameConfigPath, Value: &f.valueConfigPath, DefValue: ""},
		{Name: "b", Value: (*boolValue)(&cfg.B), DefValue: "false"},
		{Name: "n", Value: (*intValue)(&cfg.N), DefValue: "0"},
		{Name: "s", Value: (*stringValue)(&cfg.S), DefValue: ""},
	} {
		f.flagList = append(f.flagList, flg)
		f.flagMap[flg.Name] = flg
	}
	return f
}

type c10Spec struct {
	err                                    bool
	hasB, hasN, hasS, hasHelp, hasConfig   bool
	tB, tN, tS, tHelp, tConfig             string
	rest                                   int
}

// specArgv: reference reading of the documented grammar (index based, no slicing of the vector).
func specArgv(tok []string) (r c10Spec) {
	i := 0
	for i < len(tok) {
		t := tok[i]
		if len(t) < 2 || t[0] != '-' {
			break // first non-flag argument: stop
		}
		dashes := 1
		if t[1] == '-' {
			dashes = 2
			if len(t) == 2 { // literal "--": consumed, stop
				i++
				break
			}
		}
		body := t[dashes:]
		if body[0] == '-' || body[0] == '=' {
			r.err = true
			return r
		}
		i++
		name, val, has := body, "", false
		for k := 1; k < len(body); k++ {
			if body[k] == '=' {
				name, val, has = body[:k], body[k+1:], true
				break
			}
		}
		isBool := name == "b" || name == "help"
		known := isBool || name == "n" || name == "s" || name == "config"
		if !known {
			r.err = true
			return r
		}
		if !has {
			if isBool {
				val = "true"
			} else if i < len(tok) {
				val = tok[i] // taken verbatim, even if it looks like a flag
				i++
			} else {
				r.err = true
				return r
			}
		}
		switch name {
		case "b":
			r.hasB, r.tB = true, val
		case "n":
			r.hasN, r.tN = true, val
		case "s":
			r.hasS, r.tS = true, val
		case "help":
			r.hasHelp, r.tHelp = true, val
		case "config":
			r.hasConfig, r.tConfig = true, val
		}
	}
	r.rest = i
	return r
}

func c10Check(argv []string) {
	var cfg c10Cfg
	f := c10NewFlagSet(&cfg)
	// keep copies: Parse must hand back the same strings
	orig := make([]string, len(argv))
	copy(orig, argv)
	err := f.Parse(argv)
	sp := specArgv(orig)

	wantErr := sp.err
	var wB, wHelp bool
	var wN int64
	if !wantErr && sp.hasConfig && sp.tConfig != "" {
		wantErr = true // stub file system: no configuration file exists
	}
	if !wantErr && sp.hasHelp && sp.tHelp != "" {
		v, e := strconv.ParseBool(sp.tHelp)
		wHelp, wantErr = v, e != nil
	}
	if !wantErr && sp.hasB && sp.tB != "" {
		v, e := strconv.ParseBool(sp.tB)
		wB, wantErr = v, e != nil
	}
	if !wantErr && sp.hasN && sp.tN != "" {
		v, e := strconv.ParseInt(sp.tN, 0, strconv.IntSize)
		wN, wantErr = v, e != nil
	}
	if wantErr {
		vxReach("grammar or value error")
		vxAssert(err != nil, "C10: argument vector violates the grammar but Parse returned nil")
		return
	}
	vxAssert(err == nil, "C10: well-formed argument vector rejected")
	vxAssert(cfg.B == wB, "C10: bool flag has the wrong value")
	vxAssert(int64(cfg.N) == wN, "C10: int flag has the wrong value")
	if sp.hasS {
		vxReach("string flag set")
		vxAssert(cfg.S == sp.tS, "C10: string flag has the wrong value")
	} else {
		vxAssert(cfg.S == "", "C10: string flag assigned although not mentioned")
	}
	vxAssert(f.ShowUsage() == wHelp, "C10: help flag has the wrong value")
	rest := f.Args()
	vxAssert(len(rest) == len(orig)-sp.rest, "C10: Args() has the wrong length")
	for k := range rest {
		vxAssert(rest[k] == orig[sp.rest+k], "C10: Args() element differs")
	}
	if len(rest) > 0 && sp.rest > 0 {
		vxReach("flags followed by args")
	}
}

// arbitrary byte strings as tokens
func H_C10_bytes() {
	n := vxPick(vxParam("maxTokens") + 1)
	argv := make([]string, n)
	for i := range argv {
		argv[i] = vxString(vxParam("maxTokenLen"))
	}
	c10Check(argv)
}

// structured tokens so that the longer built-in names and unknown names are reachable
func c10Structured() string {
	names := []string{"b", "n", "s", "help", "config", "zz", ""}
	dash := []string{"-", "--", "---", ""}
	t := dash[vxPick(len(dash))] + names[vxPick(len(names))]
	if vxPick(2) == 1 {
		t += "="
	}
	return t + vxString(vxParam("maxTail"))
}

func H_C10_structured() {
	n := vxPick(vxParam("maxStructTokens") + 1)
	argv := make([]string, n)
	for i := range argv {
		if vxPick(2) == 0 {
			argv[i] = c10Structured()
		} else {
			argv[i] = vxString(2)
		}
	}
	c10Check(argv)
}

// well-formed flag mentions only (short alphabet, one token more than H_C10_structured can afford): repeated flags,
// bare booleans next to explicit ones, values that are given with `=` - the interplay of several mentions
func H_C10_mentions() {
	n := vxPick(vxParam("maxMentions") + 1)
	argv := make([]string, n)
	names := []string{"b", "help", "n", "s"}
	dash := []string{"-", "--"}
	for i := range argv {
		t := dash[vxPick(len(dash))] + names[vxPick(len(names))]
		if vxPick(2) == 1 {
			t += "=" + vxString(1)
		}
		argv[i] = t
	}
	if n >= 3 {
		vxReach("three flag mentions")
	}
	c10Check(argv)
}

func H_C10_vacuity() {
	argv := []string{"-s", vxString(2), vxString(2)}
	var cfg c10Cfg
	f := c10NewFlagSet(&cfg)
	err := f.Parse(argv)
	vxAssert(err != nil, "vacuity twin (expected to fail)")
}
