package logger

// C13 oracle (DESIGN.md Appendix B.3): an independent tokenizer for the Text handler's lines and a
// decoder for Go interpreted string literals, written from the Go spec, not from strconv.

func c13IsSpaceRune(r int) bool {
	switch r {
	case '\t', '\n', '\v', '\f', '\r', ' ', 0x85, 0xA0, 0x1680, 0x2028, 0x2029, 0x202F, 0x205F, 0x3000:
		return true
	}
	return r >= 0x2000 && r <= 0x200A
}

// c13Rune decodes the UTF-8 sequence at b[i] (well-formed per specSeqLen of C01's spec, duplicated here
// to keep the packages' harnesses independent): returns rune, length; length 0 if ill-formed.
func c13Rune(b []byte, i int) (int, int) {
	b0 := b[i]
	if b0 < 0x80 {
		return int(b0), 1
	}
	cont := func(k int, lo, hi byte) bool { return i+k < len(b) && b[i+k] >= lo && b[i+k] <= hi }
	switch {
	case b0 >= 0xC2 && b0 <= 0xDF:
		if cont(1, 0x80, 0xBF) {
			return int(b0&0x1F)<<6 | int(b[i+1]&0x3F), 2
		}
	case b0 >= 0xE0 && b0 <= 0xEF:
		lo, hi := byte(0x80), byte(0xBF)
		if b0 == 0xE0 {
			lo = 0xA0
		}
		if b0 == 0xED {
			hi = 0x9F
		}
		if cont(1, lo, hi) && cont(2, 0x80, 0xBF) {
			return int(b0&0x0F)<<12 | int(b[i+1]&0x3F)<<6 | int(b[i+2]&0x3F), 3
		}
	case b0 >= 0xF0 && b0 <= 0xF4:
		lo, hi := byte(0x80), byte(0xBF)
		if b0 == 0xF0 {
			lo = 0x90
		}
		if b0 == 0xF4 {
			hi = 0x8F
		}
		if cont(1, lo, hi) && cont(2, 0x80, 0xBF) && cont(3, 0x80, 0xBF) {
			return int(b0&0x07)<<18 | int(b[i+1]&0x3F)<<12 | int(b[i+2]&0x3F)<<6 | int(b[i+3]&0x3F), 4
		}
	}
	return 0xFFFD, 0
}

func c13Hex(b []byte, i, n int) int {
	if i+n > len(b) {
		return -1
	}
	v := 0
	for k := 0; k < n; k++ {
		c := b[i+k]
		switch {
		case c >= '0' && c <= '9':
			v = v<<4 | int(c-'0')
		case c >= 'a' && c <= 'f':
			v = v<<4 | int(c-'a'+10)
		case c >= 'A' && c <= 'F':
			v = v<<4 | int(c-'A'+10)
		default:
			return -1
		}
	}
	return v
}

func c13AppendRune(out []byte, r int) []byte {
	switch {
	case r < 0x80:
		return append(out, byte(r))
	case r < 0x800:
		return append(out, byte(0xC0|r>>6), byte(0x80|r&0x3F))
	case r < 0x10000:
		return append(out, byte(0xE0|r>>12), byte(0x80|(r>>6)&0x3F), byte(0x80|r&0x3F))
	}
	return append(out, byte(0xF0|r>>18), byte(0x80|(r>>12)&0x3F), byte(0x80|(r>>6)&0x3F), byte(0x80|r&0x3F))
}

// c13Part parses one key or value at b[i]: a Go interpreted string literal, or a bare run free of
// whitespace, '=' and '"'. Returns the decoded bytes, the index after the part, ok.
func c13Part(b []byte, i int) ([]byte, int, bool) {
	if i >= len(b) {
		return nil, i, false
	}
	var out []byte
	if b[i] == '"' {
		i++
		for {
			if i >= len(b) {
				return nil, i, false
			}
			c := b[i]
			switch {
			case c == '"':
				return out, i + 1, true
			case c == '\n':
				return nil, i, false
			case c == '\\':
				if i+1 >= len(b) {
					return nil, i, false
				}
				e := b[i+1]
				i += 2
				switch e {
				case 'a':
					out = append(out, 7)
				case 'b':
					out = append(out, 8)
				case 'f':
					out = append(out, 12)
				case 'n':
					out = append(out, 10)
				case 'r':
					out = append(out, 13)
				case 't':
					out = append(out, 9)
				case 'v':
					out = append(out, 11)
				case '\\', '"':
					out = append(out, e)
				case 'x':
					v := c13Hex(b, i, 2)
					if v < 0 {
						return nil, i, false
					}
					out = append(out, byte(v))
					i += 2
				case 'u':
					v := c13Hex(b, i, 4)
					if v < 0 || (v >= 0xD800 && v <= 0xDFFF) {
						return nil, i, false
					}
					out = c13AppendRune(out, v)
					i += 4
				case 'U':
					v := c13Hex(b, i, 8)
					if v < 0 || v > 0x10FFFF || (v >= 0xD800 && v <= 0xDFFF) {
						return nil, i, false
					}
					out = c13AppendRune(out, v)
					i += 8
				default:
					return nil, i, false
				}
			default:
				out = append(out, c)
				i++
			}
		}
	}
	// bare run
	start := i
	for i < len(b) {
		c := b[i]
		if c == ' ' || c == '=' || c == '\n' {
			break
		}
		if c == '"' {
			return nil, i, false
		}
		if c < 0x80 {
			if c13IsSpaceRune(int(c)) {
				return nil, i, false
			}
			i++
			continue
		}
		r, n := c13Rune(b, i)
		if n == 0 {
			i++ // an ill-formed byte is not whitespace
			continue
		}
		if c13IsSpaceRune(r) {
			return nil, i, false
		}
		i += n
	}
	if i == start {
		return nil, i, false
	}
	return b[start:i], i, true
}

type c13Tok struct{ k, v []byte }

// c13Tokenize: the line is tokens "key=value" separated by single spaces and ends in exactly one '\n'.
func c13Tokenize(line []byte) ([]c13Tok, bool) {
	if len(line) == 0 || line[len(line)-1] != '\n' {
		return nil, false
	}
	b := line[:len(line)-1]
	var toks []c13Tok
	i := 0
	for {
		k, j, ok := c13Part(b, i)
		if !ok || j >= len(b) || b[j] != '=' {
			return nil, false
		}
		v, j2, ok := c13Part(b, j+1)
		if !ok {
			return nil, false
		}
		toks = append(toks, c13Tok{k, v})
		if j2 == len(b) {
			return toks, true
		}
		if b[j2] != ' ' {
			return nil, false
		}
		i = j2 + 1
	}
}
