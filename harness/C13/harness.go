package logger

import (
	"context"
	"errors"
	"log/slog"
	"runtime"
	"strconv"
	"time"
)

// C13 — Text handler lines parse back unambiguously (DESIGN.md section 3, C13).

type c13Rec struct{ writes [][]byte }

func (w *c13Rec) Write(p []byte) (int, error) {
	cp := make([]byte, len(p))
	copy(cp, p)
	w.writes = append(w.writes, cp)
	return len(p), nil
}

// every string of up to maxLen bytes becomes exactly one part that decodes to the string
func H_C13_string() {
	s := vxString(vxParam("maxLen"))
	var buf []byte
	appendTextString(&buf, s)
	dec, end, ok := c13Part(buf, 0)
	vxAssert(ok && end == len(buf), "C13: appendTextString output is not exactly one bare or quoted part")
	vxAssert(string(dec) == s, "C13: the part does not decode to the original string")
	if len(buf) > 0 && buf[0] == '"' {
		vxReach("quoted")
	} else {
		vxReach("bare")
	}
}

type c13TM struct {
	out string
	err error
}

func (m c13TM) MarshalText() ([]byte, error) { return []byte(m.out), m.err }

type c13LV struct{ v slog.Value }

func (l c13LV) LogValue() slog.Value { return l.v }

// one symbolic string at a time at every structural position of a line
func H_C13_line() {
	vxPoolMode(1) // single goroutine: sync.Pool hands back the last object put (pool-reuse hazards are C02/C03's subject)
	pos := vxPick(11)
	s := vxString(vxParam("lineLen"))
	str := func(i int, def string) string {
		if pos == i {
			return s
		}
		return def
	}
	name := str(0, "G")
	vxAssume(name != "")
	w := &c13Rec{}
	l := New(NewTextHandler(w, NewOptions(LevelDebug, false, false)))
	l = l.With(slog.String(str(1, "wk"), str(2, "wv"))).WithGroup(name)
	// a further derivation below the (possibly odd) group: the prefix built by WithGroup is carried, not rebuilt
	shape := 0
	if pos <= 2 {
		shape = vxPick(3)
	}
	base := name + "."
	switch shape {
	case 1:
		l = l.With(slog.String("w2", "v2"))
		vxReach("With below a group")
	case 2:
		l = l.WithGroup("H")
		name = name + ".H"
		vxReach("WithGroup below a group")
	}
	gk := str(6, "g")
	msg := str(3, "msg")
	l.Log(context.Background(), LevelWarn, msg,
		slog.String(str(4, "k"), str(5, "v")),
		slog.Group(gk, slog.String(str(7, "nk"), "nv"), slog.Int("n", -7)),
		slog.Any("e", errors.New(str(8, "err"))),
		slog.Any("tm", c13TM{out: str(9, "text")}),
		slog.Any("as", AnsiString{"\x1b[31m", str(10, "ansi")}),
		slog.Any("lv", c13LV{slog.StringValue("deferred")}),
		slog.Any("lvg", c13LV{slog.GroupValue(slog.String("m", "GET"), slog.Any("in", c13LV{slog.GroupValue(slog.Int("z", 3))}))}),
		slog.Any("", c13LV{slog.GroupValue(slog.String("inlv", "y"))}),
		slog.Any("lve", c13LV{slog.GroupValue()}),
		slog.Any("bs", []byte("by tes")),
		slog.Bool("ok", true),
		slog.Duration("d", 1500*time.Millisecond),
		slog.Any("tmerr", c13TM{err: errors.New("marshal failed")}),
		slog.Group("", slog.String("inl", "x")),
		slog.Group("empty"),
	)
	vxAssert(len(w.writes) == 1, "C13: record did not produce exactly one Write")
	line := w.writes[0]
	vxPrint(string(line))
	nl := 0
	for _, c := range line {
		if c == '\n' {
			nl++
		}
	}
	vxAssert(nl == 1, "C13: a value introduced a line break")
	toks, ok := c13Tokenize(line)
	vxAssert(ok, "C13: line does not split into key=value tokens")
	gp := name + "."
	var gpath string
	if gk == "" {
		gpath = gp
	} else {
		gpath = gp + gk + "."
	}
	want := []c13Tok{
		{[]byte("time"), nil}, {[]byte("level"), []byte("WARN")}, {[]byte("msg"), []byte(msg)},
		{[]byte(str(1, "wk")), []byte(str(2, "wv"))},
	}
	if shape == 1 {
		want = append(want, c13Tok{[]byte(base + "w2"), []byte("v2")})
	}
	want = append(want, []c13Tok{
		{[]byte(gp + str(4, "k")), []byte(str(5, "v"))},
		{[]byte(gpath + str(7, "nk")), []byte("nv")},
		{[]byte(gpath + "n"), []byte("-7")},
		{[]byte(gp + "e"), []byte(str(8, "err"))},
		{[]byte(gp + "tm"), []byte(str(9, "text"))},
		{[]byte(gp + "as"), []byte(str(10, "ansi"))},
		{[]byte(gp + "lv"), []byte("deferred")},
		{[]byte(gp + "lvg.m"), []byte("GET")},
		{[]byte(gp + "lvg.in.z"), []byte("3")},
		{[]byte(gp + "inlv"), []byte("y")},
		{[]byte(gp + "bs"), []byte("by tes")},
		{[]byte(gp + "ok"), []byte("true")},
		{[]byte(gp + "d"), []byte("1.5s")},
		{[]byte(gp + "tmerr"), []byte("marshal failed")},
		{[]byte(gp + "inl"), []byte("x")},
	}...)
	vxAssert(len(toks) == len(want), "C13: a message, key or value introduced or swallowed a token")
	for i := range want {
		vxAssert(string(toks[i].k) == string(want[i].k), "C13: token key differs from the attribute's dotted path")
		if i > 0 {
			vxAssert(string(toks[i].v) == string(want[i].v), "C13: token value differs from the attribute's value")
		}
	}
	if len(s) >= 2 {
		vxReach("two-byte symbolic string in a line")
	}
}

// the handlers show the caller's file by its last two path elements (directory/file.go); a shorter path is shown whole
func c13ShortFile(file string) string {
	n := 0
	for i := len(file) - 1; i >= 0; i-- {
		if file[i] == '/' {
			n++
			if n == 2 {
				return file[i+1:]
			}
		}
	}
	return file
}

// source enabled: the source token unquotes to exactly file:line of the caller, whatever the file is called
// (in the engine the pc resolves to each of rtstubs.go's frameFiles in turn; natively to this file)
func H_C13_source() {
	vxPoolMode(1)
	var pcs [1]uintptr
	runtime.Callers(1, pcs[:])
	f, _ := runtime.CallersFrames(pcs[:]).Next()
	w := &c13Rec{}
	h := NewTextHandler(w, NewOptions(LevelDebug, false, true))
	msg := vxString(1)
	r := slog.NewRecord(time.Now(), LevelInfo, msg, pcs[0])
	r.AddAttrs(slog.Int("k", 1))
	err := h.Handle(context.Background(), r)
	vxAssert(err == nil && len(w.writes) == 1, "C13: record did not produce exactly one Write")
	line := w.writes[0]
	vxPrint(string(line))
	toks, ok := c13Tokenize(line)
	vxAssert(ok, "C13: line with source does not split into key=value tokens")
	vxAssert(len(toks) == 5, "C13: line with source has the wrong number of tokens")
	vxAssert(string(toks[2].k) == "source", "C13: source token missing")
	want := c13ShortFile(f.File) + ":" + strconv.Itoa(f.Line)
	vxAssert(string(toks[2].v) == want, "C13: source token is not the caller's file:line")
	vxAssert(string(toks[3].k) == "msg" && string(toks[3].v) == msg && string(toks[4].k) == "k", "C13: tokens after source differ")
	vxReach("source enabled")
}

func H_C13_vacuity() {
	s := vxString(2)
	var buf []byte
	appendTextString(&buf, s)
	vxAssert(len(buf) == len(s), "vacuity twin (expected to fail)")
}
