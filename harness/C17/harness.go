package fsutil

// C17 — ResolveUrlPath never leaves the base directory (DESIGN.md section 3, C17; oracle B.9).

var c17Bases = []string{"/data", "/data/", "data", ".", "./d", "a/../b", "..", "../x", "/", "/a//b/./c/"}

// specClean: independent lexical cleaner (segment stack), POSIX separators.
func specClean(p string) string {
	if p == "" {
		return "."
	}
	rooted := p[0] == '/'
	var segs []string
	start := 0
	for i := 0; i <= len(p); i++ {
		if i == len(p) || p[i] == '/' {
			seg := p[start:i]
			start = i + 1
			if seg == "" || seg == "." {
				continue
			}
			if seg == ".." {
				if len(segs) > 0 && segs[len(segs)-1] != ".." {
					segs = segs[:len(segs)-1]
				} else if !rooted {
					segs = append(segs, "..")
				}
				continue
			}
			segs = append(segs, seg)
		}
	}
	out := ""
	for i, s := range segs {
		if i > 0 {
			out += "/"
		}
		out += s
	}
	if rooted {
		return "/" + out
	}
	if out == "" {
		return "."
	}
	return out
}

// specSegsOK: rel is a non-empty sequence of non-empty segments, none of them "." or "..".
func specSegsOK(rel string) bool {
	if rel == "" {
		return false
	}
	start := 0
	for i := 0; i <= len(rel); i++ {
		if i == len(rel) || rel[i] == '/' {
			seg := rel[start:i]
			if seg == "" || seg == "." || seg == ".." {
				return false
			}
			start = i + 1
		}
	}
	return true
}

// specWithin: got is cb itself or lies beneath it.
func specWithin(cb, got string) bool {
	if got == cb {
		return true
	}
	if cb == "/" {
		return len(got) > 1 && got[0] == '/' && specSegsOK(got[1:])
	}
	if cb == "." {
		return got != "" && got[0] != '/' && specSegsOK(got)
	}
	return len(got) > len(cb)+1 && got[:len(cb)] == cb && got[len(cb)] == '/' && specSegsOK(got[len(cb)+1:])
}

// specDotFree: no segment of the URL path is "." or "..".
func specDotFree(p string) bool {
	start := 0
	for i := 0; i <= len(p); i++ {
		if i == len(p) || p[i] == '/' {
			seg := p[start:i]
			if seg == "." || seg == ".." {
				return false
			}
			start = i + 1
		}
	}
	return true
}

// specJoin: cleaned base joined with the non-empty segments of a dot-free URL path.
func specJoin(cb, p string) string {
	out := cb
	start := 0
	for i := 0; i <= len(p); i++ {
		if i == len(p) || p[i] == '/' {
			seg := p[start:i]
			start = i + 1
			if seg == "" {
				continue
			}
			if out == "." {
				out = seg
			} else if out == "/" {
				out = "/" + seg
			} else {
				out = out + "/" + seg
			}
		}
	}
	return out
}

func c17Check(base, p string) {
	got := ResolveUrlPath(base, p)
	cb := specClean(base)
	vxAssert(specWithin(cb, got), "C17: result escapes the (cleaned) base directory")
	if specDotFree(p) {
		vxReach("dot-free path")
		vxAssert(got == specJoin(cb, p), "C17: dot-free URL path is not simply base joined with the path")
	} else {
		vxReach("path with dot segments")
	}
}

// all URL paths up to maxLen bytes (arbitrary bytes), bases from a fixed list of spellings
func H_C17_contain() {
	base := c17Bases[vxPick(len(c17Bases))]
	p := vxString(vxParam("maxLen"))
	c17Check(base, p)
}

// arbitrary non-empty base of up to baseLen bytes, URL path up to anyLen bytes
func H_C17_anybase() {
	base := vxString(vxParam("baseLen"))
	vxAssume(base != "")
	p := vxString(vxParam("anyLen"))
	c17Check(base, p)
}

// the result depends on the arguments of this call only: an earlier call with other arguments (another base whose
// text overlaps, another path) changes nothing
func H_C17_second() {
	b1 := vxString(vxParam("secLen"))
	p1 := vxString(vxParam("secLen"))
	vxAssume(b1 != "")
	ResolveUrlPath(b1, p1)
	b2 := vxString(vxParam("secLen"))
	p2 := vxString(vxParam("secLen"))
	vxAssume(b2 != "")
	c17Check(b2, p2)
	vxReach("second call")
}

// vacuity twin: must be reported violated
func H_C17_vacuity() {
	base := c17Bases[vxPick(len(c17Bases))]
	p := vxString(2)
	got := ResolveUrlPath(base, p)
	vxAssert(len(got) == 0, "vacuity twin (expected to fail)")
}
