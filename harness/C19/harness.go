package ioutil

import (
	"errors"
)

// C19 — ProgressWriter (DESIGN.md section 3, C19).

// wrapped writer obeying the io.Writer contract: returns any 0 <= n <= len(p) and any error
type c19W struct {
	calls int
}

func (w *c19W) Write(p []byte) (int, error) {
	w.calls++
	n := vxInt(0, len(p))
	if vxBool() {
		return n, errors.New("short or failed write")
	}
	return n, nil
}

// the same, also implementing io.StringWriter
type c19SW struct {
	c19W
	scalls int
}

func (w *c19SW) WriteString(s string) (int, error) {
	w.scalls++
	n := vxInt(0, len(s))
	if vxBool() {
		return n, errors.New("short or failed write")
	}
	return n, nil
}

func H_C19_sum() {
	sw := vxPick(2) == 1
	var pw *ProgressWriter
	var plain *c19W
	var strw *c19SW
	if sw {
		strw = &c19SW{}
		pw = NewProgressWriter(strw)
	} else {
		plain = &c19W{}
		pw = NewProgressWriter(plain)
	}
	k := 1 + vxPick(vxParam("maxWrites"))
	total := 0
	for i := 0; i < k; i++ {
		data := make([]byte, 1+vxPick(3))
		var n int
		var err error
		if vxPick(2) == 0 {
			n, err = pw.Write(data)
		} else {
			n, err = pw.WriteString(string(data))
			if sw {
				vxReach("StringWriter path")
			}
		}
		vxAssert(n >= 0 && n <= len(data), "C19: returned count outside the wrapped writer's contract")
		_ = err
		total += n
		vxAssert(pw.Size() == total, "C19: Size() differs from the sum of the byte counts the wrapped writer reported")
	}
	if total > 0 {
		vxReach("non-zero total")
	}
}

func H_C19_vacuity() {
	pw := NewProgressWriter(&c19W{})
	n, _ := pw.Write(make([]byte, 3))
	vxAssert(pw.Size() != n || n == 3, "vacuity twin (expected to fail)")
}

// Engine 2 setup: writer goroutine (k writes then Close); the consumer is the environment (engine2/check_progress.py)
func S_progress() {
	pw := NewProgressWriter(&c19Env{})
	k := vxParam("writes")
	vxProc("writer", func() {
		for i := 0; i < k; i++ {
			pw.Write(make([]byte, vxParam("wbytes")))
			vxObs("written", pw.Size())
		}
		pw.Close()
		vxObs("closed", pw.Size())
	})
}

// wrapped writer for the concurrent model: the count it reports is an environment choice 0..len(p)
type c19Env struct{}

func (w *c19Env) Write(p []byte) (int, error) { return vxPick(len(p) + 1), nil }
