package strutil

import (
	vxexec "os/exec"
)

// C16 — ShellEscape yields exactly one shell word that evaluates back to the input
// (DESIGN.md section 3, C16; oracle B.8: a POSIX XCU 2.2-2.6 word lexer).

func specIsMeta(c byte) bool {
	switch c {
	case ' ', '\t', '\n', ';', '&', '|', '<', '>', '(', ')':
		return true
	}
	return false
}

func specIsActive(c byte) bool {
	switch c {
	case '$', '`', '*', '?', '[', ']', '#', '~', '!', '{', '}':
		return true
	}
	return false
}

func specIsNameByte(c byte, first bool) bool {
	if c == '_' || (c >= 'a' && c <= 'z') || (c >= 'A' && c <= 'Z') {
		return true
	}
	return !first && c >= '0' && c <= '9'
}

// specShWord lexes text as shell input. ok reports that the whole text is exactly one word in
// which no character is active outside quoting; val is the word's value after quote removal.
func specShWord(text string) (val []byte, ok bool) {
	const (
		unq = iota
		sq
		dq
	)
	st := unq
	namePrefix := true // everything so far is an unquoted NAME (assignment detection)
	if len(text) == 0 {
		return nil, false // no word at all
	}
	for i := 0; i < len(text); i++ {
		c := text[i]
		switch st {
		case unq:
			switch {
			case c == '\'':
				st = sq
				namePrefix = false
			case c == '"':
				st = dq
				namePrefix = false
			case c == '\\':
				if i+1 >= len(text) {
					return nil, false
				}
				i++
				if text[i] != '\n' { // backslash-newline is a line continuation
					val = append(val, text[i])
				}
				namePrefix = false
			case specIsMeta(c), specIsActive(c):
				return nil, false
			case c == '=':
				if namePrefix && i > 0 {
					return nil, false // NAME=... would be an assignment word
				}
				val = append(val, c)
				namePrefix = false
			default:
				if !specIsNameByte(c, i == 0) {
					namePrefix = false
				}
				val = append(val, c)
			}
		case sq:
			if c == '\'' {
				st = unq
			} else {
				val = append(val, c)
			}
		case dq:
			switch c {
			case '"':
				st = unq
			case '$', '`':
				return nil, false
			case '\\':
				if i+1 < len(text) && (text[i+1] == '$' || text[i+1] == '`' || text[i+1] == '"' || text[i+1] == '\\' || text[i+1] == '\n') {
					i++
					if text[i] != '\n' {
						val = append(val, text[i])
					}
				} else {
					val = append(val, c)
				}
			default:
				val = append(val, c)
			}
		}
	}
	return val, st == unq
}

func c16NoNUL(s string) {
	for i := 0; i < len(s); i++ {
		vxAssume(s[i] != 0)
	}
}

// real shells (native replay only): what does `printf %s <text>` receive?
func c16Shell(sh, text string, home string) (string, bool) {
	cmd := vxexec.Command(sh, "-c", "printf '%s|' "+text)
	cmd.Env = []string{"HOME=" + home, "PATH=/usr/bin:/bin"}
	out, err := cmd.Output()
	return string(out), err == nil
}

func H_C16_escape() {
	s := vxString(vxParam("maxLen"))
	c16NoNUL(s)
	out := ShellEscape(s)
	val, ok := specShWord(out)
	vxAssert(ok, "C16: ShellEscape output is not exactly one inert shell word")
	vxAssert(string(val) == s, "C16: the word's value differs from the input")
	if len(val) > 1 {
		vxReach("multi-byte value")
	}
	if !vxSymbolic() {
		for _, sh := range []string{"dash", "bash"} {
			got, ok := c16Shell(sh, out, "/h")
			vxAssert(ok && got == s+"|", "C16: real "+sh+" does not read the escaped text back as one word equal to the input")
		}
	}
}

func H_C16_tilde() {
	s := vxString(vxParam("maxLen"))
	c16NoNUL(s)
	out := ShellEscapeExceptTilde(s)
	if len(s) >= 2 && s[0] == '~' && s[1] == '/' {
		vxReach("tilde prefix")
		vxAssert(len(out) >= 2 && out[0] == '~' && out[1] == '/', "C16: leading ~/ is not left unquoted for the shell")
		rest := out[2:]
		val, ok := specShWord(rest)
		vxAssert(ok, "C16: remainder after ~/ is not one inert word part")
		vxAssert(string(val) == s[2:], "C16: remainder after ~/ does not evaluate to the rest of the input")
		if !vxSymbolic() {
			for _, sh := range []string{"dash", "bash"} {
				got, ok := c16Shell(sh, out, "/h")
				vxAssert(ok && got == "/h/"+s[2:]+"|", "C16: real "+sh+" does not expand ~/ and keep the rest literal")
			}
		}
	} else {
		vxReach("no tilde prefix")
		val, ok := specShWord(out)
		vxAssert(ok, "C16: ShellEscapeExceptTilde output is not exactly one inert shell word")
		vxAssert(string(val) == s, "C16: the word's value differs from the input")
		if !vxSymbolic() {
			for _, sh := range []string{"dash", "bash"} {
				got, ok := c16Shell(sh, out, "/h")
				vxAssert(ok && got == s+"|", "C16: real "+sh+" does not read the escaped text back as one word equal to the input")
			}
		}
	}
}

// the result of a call stays what it is when the functions are called again (a command line is built from several
// escaped arguments): no result may live in memory that a later call reuses
func H_C16_twice() {
	s1 := vxString(vxParam("twiceLen"))
	s2 := vxString(vxParam("twiceLen"))
	c16NoNUL(s1)
	c16NoNUL(s2)
	var a, b string
	if vxBool() {
		a = ShellEscape(s1)
	} else {
		a = ShellEscapeExceptTilde(s1)
	}
	before := string(append([]byte(nil), a...)) // private copy of the first result
	if vxBool() {
		b = ShellEscape(s2)
	} else {
		b = ShellEscapeExceptTilde(s2)
	}
	vxAssert(a == before, "C16: an earlier result changed when the function was called again")
	line := a + " " + b
	_ = line
	vxReach("two calls")
}

func H_C16_vacuity() {
	s := vxString(2)
	c16NoNUL(s)
	out := ShellEscape(s)
	_, ok := specShWord(out)
	vxAssert(!ok, "vacuity twin (expected to fail)")
}
