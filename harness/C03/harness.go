package logger

import (
	"io"
	"log/slog"
)

// C03 — derived loggers are isolated: the line a logger writes depends only on its own derivation
// chain (DESIGN.md section 3, C03). Differential check (real code on both sides) over derivation
// trees and operation orders, equivalence of With() with call-site attributes, and a write-set
// monitor showing that deriving never stores into pre-existing objects.

type c03Rec struct {
	lines []string
	freed int // Write calls whose argument lives in a buffer that is already back in the pool
}

func (w *c03Rec) Write(p []byte) (int, error) {
	if vxInPool(p) {
		w.freed++
	}
	w.lines = append(w.lines, string(p))
	return len(p), nil
}

func c03Root(kind int, w io.Writer) *Logger {
	opts := NewOptions(LevelDebug, false, false)
	switch kind {
	case 0:
		return New(NewNanoHandler(w, opts))
	case 1:
		return New(NewTextHandler(w, opts))
	}
	return New(NewJsonHandler(w, opts))
}

// a derivation step
type c03Step struct {
	group string // WithGroup(group) if non-empty, else With(key, val)
	key   string
	val   string
}

func c03Apply(l *Logger, s c03Step) *Logger {
	if s.group != "" {
		return l.WithGroup(s.group)
	}
	return l.With(slog.String(s.key, s.val))
}

// c03Alone: the line written by a logger built alone from a fresh root by replaying chain
func c03Alone(kind int, chain []c03Step, msg string) string {
	w := &c03Rec{}
	l := c03Root(kind, w)
	for _, s := range chain {
		l = c03Apply(l, s)
	}
	l.Info(msg, "call", 1)
	return w.lines[0]
}


// c03NoTime cuts the time field off a line: two records logged one after the other carry different instants on a
// real clock (the engine's clock stub returns fixed instants), and the time is not what is being compared
func c03NoTime(kind int, line string) string {
	switch kind {
	case 0: // "2006-01-02 15:04:05 [I] ..."
		if len(line) >= 19 {
			return line[19:]
		}
	case 1: // "time=2006-01-02T15:04:05Z level=..."
		for i := 0; i < len(line); i++ {
			if line[i] == ' ' {
				return line[i:]
			}
		}
	default: // {"time":"2006-01-02T15:04:05.000000006Z","level":...
		for i := 9; i+1 < len(line); i++ {
			if line[i] == '"' && line[i+1] == ',' {
				return line[i:]
			}
		}
	}
	return line
}

func H_C03_tree() {
	vxPoolMode(1)
	kind := vxPick(3)
	w := &c03Rec{}
	root := c03Root(kind, w)
	// parent carries attributes (so that its pre-rendered bytes exist, usually with spare capacity)
	pv := vxString(vxParam("valLen"))
	pchain := []c03Step{{key: "pk", val: pv}}
	switch vxPick(3) {
	case 1:
		pchain = append([]c03Step{{group: "pg"}}, pchain...)
	case 2:
		pchain = append(pchain, c03Step{group: "pg"}) // the parent is itself the result of WithGroup on pre-rendered bytes
	}
	parent := root
	for _, s := range pchain {
		parent = c03Apply(parent, s)
	}
	// two children of the same parent and a grandchild; same-length attributes so an overwrite shows
	s1 := c03Step{key: "c", val: "AAAA"}
	s2 := c03Step{key: "c", val: "BBBB"}
	if vxPick(2) == 1 {
		s1 = c03Step{group: "g1"}
	}
	if vxPick(2) == 1 {
		s2 = c03Step{group: "g2"}
	}
	sg := c03Step{key: "gc", val: "CC"}
	var c1, c2, gc *Logger
	order := vxPick(4)
	switch order {
	case 0:
		c1 = c03Apply(parent, s1)
		c2 = c03Apply(parent, s2)
		gc = c03Apply(c1, sg)
	case 1:
		c2 = c03Apply(parent, s2)
		c1 = c03Apply(parent, s1)
		gc = c03Apply(c1, sg)
	case 2:
		c1 = c03Apply(parent, s1)
		gc = c03Apply(c1, sg)
		c2 = c03Apply(parent, s2)
	case 3:
		c1 = c03Apply(parent, s1)
		c1.Info("early", "call", 1) // logging between derivations
		w.lines = nil
		c2 = c03Apply(parent, s2)
		gc = c03Apply(c1, sg)
	}
	// log on every node, in an order chosen after all derivations
	nodes := []*Logger{root, parent, c1, c2, gc}
	chains := [][]c03Step{nil, pchain, append(append([]c03Step{}, pchain...), s1), append(append([]c03Step{}, pchain...), s2), append(append(append([]c03Step{}, pchain...), s1), sg)}
	perm := [][]int{{0, 1, 2, 3, 4}, {4, 3, 2, 1, 0}, {2, 3, 1, 4, 0}}[vxPick(3)]
	for _, i := range perm {
		w.lines = nil
		nodes[i].Info("m", "call", 1)
		vxAssert(len(w.lines) == 1, "C03: a record did not produce exactly one line")
		vxAssert(c03NoTime(kind, w.lines[0]) == c03NoTime(kind, c03Alone(kind, chains[i], "m")), "C03: a logger's line differs from the line of a logger built alone with the same chain (a derivation changed a parent or sibling)")
	}
	if len(pv) > 0 {
		vxReach("parent with attributes and two children")
	}
}

type c03LV struct{ v slog.Value }

func (l c03LV) LogValue() slog.Value { return l.v }

// attribute shapes handed to With: plain, keyed / inline / empty groups, deferred values
func c03Shape(i int, s string) slog.Attr {
	switch i {
	case 0:
		return slog.String(vxString(1), s)
	case 1:
		return slog.Int("n", 5)
	case 2:
		return slog.Group("kg", slog.String("x", s), slog.Int("y", 1))
	case 3:
		return slog.Group("", slog.String("x", s), slog.Int("y", 1))
	case 4:
		return slog.Group("e")
	case 5:
		return slog.Group("")
	case 6:
		return slog.Any("lv", c03LV{slog.GroupValue()})
	case 7:
		return slog.Group("o", slog.Group("e"), slog.Any("lv", c03LV{slog.StringValue(s)}))
	}
	return slog.Any("", c03LV{slog.GroupValue()})
}

const c03Shapes = 9

// With(a...) then Info(m, b...) writes what root.Info(m, a..., b...) writes inside the open groups
func H_C03_with_equiv() {
	vxPoolMode(1)
	kind := vxPick(3)
	s := vxString(vxParam("eqLen"))
	as := []any{c03Shape(vxPick(c03Shapes), s)}
	if vxPick(2) == 1 {
		as = append(as, c03Shape(vxPick(c03Shapes), "second"))
		vxReach("With of two attributes")
	}
	b := slog.Int("b", 7)
	asb := append(append([]any{}, as...), b)
	w1, w2 := &c03Rec{}, &c03Rec{}
	switch vxPick(4) {
	case 0: // With(a)
		c03Root(kind, w1).With(as...).Info("m", b)
		c03Root(kind, w2).Info("m", asb...)
	case 1: // WithGroup(g).With(a)
		c03Root(kind, w1).WithGroup("g").With(as...).Info("m", b)
		c03Root(kind, w2).Info("m", slog.Group("g", asb...))
	case 2: // With(a).WithGroup(g)
		c03Root(kind, w1).With(as...).WithGroup("g").Info("m", b)
		c03Root(kind, w2).Info("m", append(append([]any{}, as...), slog.Group("g", b))...)
		vxReach("With then WithGroup")
	case 3: // With(a) once per attribute
		l := c03Root(kind, w1)
		for _, a := range as {
			l = l.With(a)
		}
		l.Info("m", b)
		c03Root(kind, w2).Info("m", asb...)
	}
	vxAssert(len(w1.lines) == 1 && len(w2.lines) == 1 && c03NoTime(kind, w1.lines[0]) == c03NoTime(kind, w2.lines[0]), "C03: With() attributes do not appear as if passed at the call site")
}

// deriving stores only into the fresh clone (or a pooled scratch buffer), never into the parent
func H_C03_writeset() {
	vxPoolMode(1)
	kind := vxPick(3)
	w := &c03Rec{}
	parent := c03Root(kind, w).With(slog.String("pk", vxString(vxParam("valLen"))))
	if vxPick(2) == 1 {
		parent = parent.WithGroup("pg")
	}
	vxFrameBegin()
	var child *Logger
	if vxPick(2) == 0 {
		child = parent.With(slog.String("c", "AAAA"), slog.Group("g", slog.Int("n", 1)))
	} else {
		child = parent.WithGroup("cg")
	}
	n := vxFrameWrites()
	vxAssert(n == 0, "C03: deriving a logger stored into an object that existed before (parent state or its pre-rendered bytes)")
	vxAssert(child != parent, "C03: derived logger is the parent itself")
	// used concurrently: a logger of the tree must not hand its line to Write from a buffer it has already returned
	// to the pool - a sibling formatting a record at that moment would be writing into it
	child.Info("m", "k", 1)
	vxAssert(w.freed == 0, "C03: a record was handed to Write from a buffer already returned to the pool (a sibling logging concurrently would overwrite it)")
	vxReach("derivation monitored")
}

func H_C03_vacuity() {
	w := &c03Rec{}
	l := c03Root(vxPick(3), w)
	l.With("a", vxString(1)).Info("m")
	vxAssert(w.lines[0] == c03Alone(0, nil, "m"), "vacuity twin (expected to fail)")
}
