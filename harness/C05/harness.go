package httpd

import (
	"net/http"
	"net/url"
)

// C05 — pooled per-request state never leaks between requests (DESIGN.md section 3, C05).
// Bounded histories from NewMux with sync.Pool.Get forking over {recycled Store, new Store},
// plus one inductive step from an arbitrary pooled Store satisfying the pool invariant.

type c05Route struct {
	pattern string
	names   []string
}

var c05Table = []c05Route{
	{"/u/:a/:b", []string{"a", "b"}},
	{"/v/:c", []string{"c"}},
	{"/w", nil},
	{"/s/*", []string{routeParamAny}},
}
var c05Late = c05Route{"/b/:x/:y/:z", []string{"x", "y", "z"}}

var c05AllNames = []string{"a", "b", "c", "x", "y", "z", routeParamAny}

type c05Req struct {
	path   string
	route  int // index in table, len(table) = late route, -1 none
	values []string
}

const c05NReqs = 9

// c05Req builds request k; parameter values are symbolic one-byte segments
func c05MkReq(k int) c05Req {
	seg := func() string {
		x := vxStringN(vxParam("segLen"))
		for i := 0; i < len(x); i++ {
			vxAssume(x[i] != '/')
		}
		return x
	}
	switch k {
	case 0:
		x, y := seg(), seg()
		return c05Req{"/u/" + x + "/" + y, 0, []string{x, y}}
	case 1:
		return c05Req{"/nope", -1, nil}
	case 2:
		x := seg()
		return c05Req{"/v/" + x, 1, []string{x}}
	case 3:
		return c05Req{"/w", 2, nil}
	case 4:
		x := vxStringN(2) // the rest of the path: may contain a later '/'
		vxAssume(x[0] != '/')
		return c05Req{"/s/" + x, 3, []string{x}}
	case 5:
		x := seg()
		return c05Req{"/b/7/" + x + "/9", 4, []string{"7", x, "9"}}
	case 6:
		return c05Req{"*", -1, nil} // OPTIONS * : a request path that is not rooted
	case 7:
		return c05Req{"", -1, nil} // CONNECT / absolute-form target: empty URL.Path
	}
	return c05Req{"/u/1", -1, nil}
}

type c05W struct{ h http.Header }

func (w *c05W) Header() http.Header         { return w.h }
func (w *c05W) Write(b []byte) (int, error) { return len(b), nil }
func (w *c05W) WriteHeader(int)             {}

type c05Obs struct {
	calls    int
	handler  int
	lookups  []string
	status0  int
	idEntry  string
	idExit   string
	infoPath string
}

func c05Observe(obs *c05Obs, which int, s *Store, misbehave int) {
	obs.calls++
	obs.handler = which
	obs.status0 = s.W.Status
	obs.idEntry = string([]byte(s.GetID())) // copy: GetID aliases the pooled buffer
	obs.lookups = nil
	for _, n := range c05AllNames {
		obs.lookups = append(obs.lookups, s.RouteParam(n))
	}
	if s.I != nil {
		obs.infoPath = s.I.Path
	}
	switch misbehave {
	case 1:
		s.W.WriteHeader(503)
	case 2, 3:
		s.W.WriteHeader(500)
		obs.idExit = string([]byte(s.GetID()))
		panic("handler failed")
	}
	obs.idExit = string([]byte(s.GetID()))
}

func c05NewMux(obs *c05Obs, misbehave *int) *Mux {
	mux := NewMux()
	for i, r := range c05Table {
		i := i
		mux.Handle(r.pattern, http.MethodGet, func(s *Store) { c05Observe(obs, i, s, *misbehave) })
	}
	mux.HandleNoRoute(func(s *Store) { c05Observe(obs, -1, s, *misbehave) })
	mux.HandleRelay(func(s *Store) {
		if *misbehave != 3 {
			defer func() { recover() }() // like logger.Relay: a panicking handler does not kill the server
		}
		s.I.HandlerFunc(s)
	})
	return mux
}

func c05Expect(req c05Req, lateRegistered bool) (int, []string) {
	route := req.route
	if route == len(c05Table) && !lateRegistered {
		route = -1
	}
	want := make([]string, len(c05AllNames))
	if route >= 0 {
		names := c05Late.names
		if route < len(c05Table) {
			names = c05Table[route].names
		}
		for k, n := range names {
			for j, an := range c05AllNames {
				if an == n {
					want[j] = req.values[k]
				}
			}
		}
	}
	return route, want
}

// c05ServeHTTP: like net/http's conn.serve, a panic escaping ServeHTTP is recovered by the server
func c05ServeHTTP(mux *Mux, w http.ResponseWriter, r *http.Request) {
	defer func() { recover() }()
	mux.ServeHTTP(w, r)
}

func c05Serve(mux *Mux, obs *c05Obs, req c05Req, late bool, seen []string) string {
	*obs = c05Obs{handler: -2}
	c05ServeHTTP(mux, &c05W{}, &http.Request{Method: http.MethodGet, URL: &url.URL{Path: req.path}})
	vxAssert(obs.calls == 1, "C05: not exactly one handler invocation")
	route, want := c05Expect(req, late)
	vxAssert(obs.handler == route, "C05: selected route depends on request history")
	for j := range c05AllNames {
		vxAssert(obs.lookups[j] == want[j], "C05: a parameter lookup returned residue of another request")
	}
	vxAssert(obs.status0 == 0, "C05: initial response status is not 0")
	vxAssert(len(obs.idEntry) > 9 && obs.idEntry == obs.idExit, "C05: request ID changed during the request")
	for _, id := range seen {
		vxAssert(id != obs.idEntry, "C05: request ID reused within the Mux")
		vxAssert(id[:9] == obs.idEntry[:9], "C05: request ID prefix differs within the Mux")
	}
	return obs.idEntry
}

// bounded histories: up to maxReqs requests, optionally registering a route with more params in between
func H_C05_history() {
	obs := &c05Obs{}
	mis := 0
	mux := c05NewMux(obs, &mis)
	late := false
	var seen []string
	n := 1 + vxPick(vxParam("maxReqs"))
	for i := 0; i < n; i++ {
		if !late && vxPick(2) == 1 {
			mux.Handle(c05Late.pattern, http.MethodGet, func(s *Store) { c05Observe(obs, len(c05Table), s, mis) })
			late = true
			vxReach("route registered after requests were served")
		}
		req := c05MkReq(vxPick(c05NReqs))
		mis = 0
		if i+1 < n {
			mis = vxPick(4) // earlier requests may write a status, panic inside a recovering relay, or panic out of ServeHTTP
		}
		seen = append(seen, c05Serve(mux, obs, req, late, seen))
	}
}

// one inductive step: the pooled Store is arbitrary subject to the pool invariant
// (what ServeHTTP's reset and later registrations can leave behind)
func H_C05_step() {
	obs := &c05Obs{}
	mis := 0
	mux := c05NewMux(obs, &mis)
	late := vxPick(2) == 1
	// the Store was created when maxParams was capV (any value a history allows)
	capV := vxPick(mux.maxParams + 1)
	if late {
		mux.Handle(c05Late.pattern, http.MethodGet, func(s *Store) { c05Observe(obs, len(c05Table), s, mis) })
	}
	st := mux.storePool.New().(*Store)
	st.P.V = make([]string, 0, capV)
	// pool invariant InvPool: W reset, R/I nil, K nil, V empty with any capacity 0..maxParams-at-creation, id = 9-byte prefix
	counters := []uint64{0, 34, 35, 1295, 1 << 40, ^uint64(0) - 1}
	mux.storeID = counters[vxPick(len(counters))]
	mux.storePool.Put(st)
	vxPoolMode(1) // hand out exactly this Store
	req := c05MkReq(vxPick(c05NReqs))
	c05Serve(mux, obs, req, late, nil)
	// the Store goes back to the pool satisfying the invariant again
	vxAssert(st.W.Origin == nil && st.W.Status == 0 && st.R == nil && st.I == nil && st.P.K == nil && len(st.P.V) == 0 && len(st.id) == 9, "C05 (inductive step): the Store returned to the pool does not satisfy the pool invariant again")
}

// two Stores handed out at the same time share no mutable memory (what makes concurrent requests independent)
func H_C05_distinct() {
	obs := &c05Obs{}
	mis := 0
	mux := c05NewMux(obs, &mis)
	a := mux.storePool.New().(*Store)
	b := mux.storePool.New().(*Store)
	vxAssert(a != b && a.W != b.W && a.P != b.P, "C05: two pooled Stores share a component")
	vxAssert(cap(a.id) > 0 && cap(b.id) > 0 && &a.id[:1][0] != &b.id[:1][0], "C05: two pooled Stores share the request-ID buffer")
	if cap(a.P.V) > 0 && cap(b.P.V) > 0 {
		vxAssert(&a.P.V[:1][0] != &b.P.V[:1][0], "C05: two pooled Stores share the parameter-value buffer")
		vxReach("distinct parameter buffers")
	}
	// and serving a request with one of them does not touch the other
	a.id = append(a.id, "in-flight"...)
	snapshot := string(a.id)
	mux.storePool.Put(b)
	vxPoolMode(1)
	c05Serve(mux, obs, c05MkReq(0), false, nil)
	vxAssert(string(a.id) == snapshot, "C05: serving a request changed the ID of a Store that is in use elsewhere")
}

func H_C05_vacuity() {
	obs := &c05Obs{}
	mis := 0
	mux := c05NewMux(obs, &mis)
	c05Serve(mux, obs, c05MkReq(vxPick(c05NReqs)), false, nil)
	vxAssert(obs.handler == -1, "vacuity twin (expected to fail)")
}
