package logger

import (
	"context"
	"errors"
	"io"
	"log/slog"
	"net/http"
	"net/url"
	"strings"

	"github.com/whoisnian/glb/httpd"
)

// C15 — Logger.Relay contains handler panics and logs each request once, truthfully
// (DESIGN.md section 3, C15). The real Mux.ServeHTTP drives the real Relay; the handler's behaviour
// is symbolic; the log Handler and the http.ResponseWriter are recorders.

type c15Rec struct {
	level slog.Level
	msg   string
	attrs map[string]slog.Value
	keys  []string
}

type c15Log struct {
	threshold slog.Level
	recs      []c15Rec
}

func (h *c15Log) Enabled(l slog.Level) bool         { return l >= h.threshold }
func (h *c15Log) IsDebug() bool                     { return false }
func (h *c15Log) IsColorful() bool                  { return false }
func (h *c15Log) IsAddSource() bool                 { return false }
func (h *c15Log) WithAttrs(a []slog.Attr) Handler   { return h }
func (h *c15Log) WithGroup(name string) Handler     { return h }
func (h *c15Log) Handle(_ context.Context, r slog.Record) error {
	rec := c15Rec{level: r.Level, msg: r.Message, attrs: map[string]slog.Value{}}
	r.Attrs(func(a slog.Attr) bool {
		if a.Value.Kind() == slog.KindString {
			// Store.GetID() returns a string that aliases the pooled Store's ID buffer (valid during the request):
			// a handler that keeps records must copy it, as the real handlers do by formatting at once
			a.Value = slog.StringValue(strings.Clone(a.Value.String()))
		}
		rec.attrs[a.Key] = a.Value
		rec.keys = append(rec.keys, a.Key)
		return true
	})
	h.recs = append(h.recs, rec)
	return nil
}

// what the client receives
type c15W struct {
	h      http.Header
	status int // first status sent (0: nothing yet)
	body   int
}

func (w *c15W) Header() http.Header {
	if w.h == nil {
		w.h = http.Header{}
	}
	return w.h
}
func (w *c15W) WriteHeader(code int) {
	if w.status == 0 {
		w.status = code
	}
}
func (w *c15W) Write(b []byte) (int, error) {
	if w.status == 0 {
		w.status = 200
	}
	w.body += len(b)
	return len(b), nil
}

// Flush: like net/http's response and httptest.ResponseRecorder, flushing sends the header (200) when none was sent yet
func (w *c15W) Flush() {
	if w.status == 0 {
		w.status = 200
	}
}

type c15Ptr struct{ x int }

func c15PanicValue(k int) any {
	switch k {
	case 0:
		return "boom"
	case 1:
		return errors.New("boom error")
	case 2:
		return 42
	case 3:
		var p *c15Ptr
		return p // nil-valued typed pointer: a non-nil interface
	}
	return c15Ptr{7}
}

func c15Tag(v slog.Value) string {
	if v.Kind() == slog.KindString {
		return v.String()
	}
	if as, ok := v.Any().(AnsiString); ok {
		return as.Value
	}
	return "?"
}

func H_C15_relay() {
	threshold := []slog.Level{LevelDebug, LevelInfo, LevelWarn, LevelError, LevelFatal}[vxPick(5)]
	lg := &c15Log{threshold: threshold}
	l := New(lg)
	mux := httpd.NewMux()
	mux.HandleRelay(l.Relay)

	// symbolic handler behaviour
	writeHdr := vxBool()
	code := vxInt(200, 599)
	writeBody := vxBool()
	panics := vxPick(3) // 0 no panic, 1 panic before writing, 2 panic after writing
	pk := vxPick(5)
	pval := c15PanicValue(pk)
	flushFirst := vxBool()  // the handler flushes before anything else (streaming handlers do): the header goes out as 200
	vxAssume(!(flushFirst && writeHdr)) // "status set once": an explicit WriteHeader after the flushed (implicit 200) header is a second status, outside the claim
	viaString := vxBool()   // the body is written with io.WriteString (uses a WriteString method when the writer has one)
	handler := func(s *httpd.Store) {
		if flushFirst {
			s.W.Flush()
		}
		if panics == 1 {
			panic(pval)
		}
		if writeHdr {
			s.W.WriteHeader(code)
		}
		if writeBody {
			if viaString {
				io.WriteString(s.W, "body")
			} else {
				s.W.Write([]byte("body"))
			}
		}
		if panics == 2 {
			panic(pval)
		}
	}
	matched := vxPick(2) == 1
	if matched {
		mux.Handle("/a/:x", http.MethodGet, handler)
	} else {
		mux.HandleNoRoute(handler)
	}
	w := &c15W{}
	port := vxString(1)
	vxAssume(port != ":") // the client IP is everything before the last colon of RemoteAddr
	req := &http.Request{Method: http.MethodGet, URL: &url.URL{Path: "/a/1"}, RequestURI: "/a/1?q=" + vxString(1), RemoteAddr: "10.0.0.7:5" + port}
	mux.ServeHTTP(w, req) // a panic escaping here is a violation (engine default)

	wroteSomething := flushFirst || ((writeHdr || writeBody) && panics != 1)
	didPanic := panics != 0
	// 500 iff the handler panicked before any status was written
	if didPanic && !wroteSomething {
		vxAssert(w.status == 500, "C15: handler panicked before writing but the client did not receive 500")
		vxReach("500 sent after panic")
	} else if wroteSomething {
		want := 200
		if writeHdr && !flushFirst {
			want = code
		}
		vxAssert(w.status == want, "C15: status on the wire differs from what the handler wrote")
		if flushFirst && didPanic {
			vxReach("panic after a flushed header")
		}
	} else {
		vxAssert(w.status == 0, "C15: a status was sent although the handler wrote nothing and did not panic")
	}
	// log records
	var beg, end, errs []c15Rec
	for _, r := range lg.recs {
		switch {
		case r.level == LevelInfo && c15Tag(r.attrs["tag"]) == "REQ_BEG":
			beg = append(beg, r)
		case r.level == LevelInfo && c15Tag(r.attrs["tag"]) == "REQ_END":
			end = append(end, r)
		case r.level == LevelError:
			errs = append(errs, r)
		default:
			vxFail("C15: unexpected log record")
		}
	}
	if threshold <= LevelInfo {
		vxAssert(len(beg) == 1 && len(end) == 1, "C15: not exactly one REQ_BEG and one REQ_END at Info level")
		b, e := beg[0], end[0]
		for _, k := range []string{"ip", "method", "path", "tid"} {
			vxAssert(b.attrs[k].Kind() == slog.KindString && e.attrs[k].Kind() == slog.KindString && b.attrs[k].String() == e.attrs[k].String(), "C15: REQ_BEG and REQ_END disagree on "+k)
		}
		vxAssert(b.attrs["method"].String() == "GET" && b.attrs["path"].String() == req.RequestURI && b.attrs["ip"].String() == "10.0.0.7", "C15: REQ_BEG does not carry the request's method / URI / client IP")
		vxAssert(len(b.attrs["tid"].String()) > 9, "C15: REQ_BEG carries no request ID")
		received := w.status
		if received == 0 {
			received = 200 // net/http sends 200 when the handler returns without writing
		}
		vxAssert(e.attrs["code"].Kind() == slog.KindInt64 && int(e.attrs["code"].Int64()) == received, "C15: REQ_END code differs from the status the client received")
		vxReach("REQ_BEG/REQ_END paired")
	} else {
		vxAssert(len(beg) == 0 && len(end) == 0, "C15: request records written below the threshold")
	}
	if didPanic && threshold <= LevelError {
		vxAssert(len(errs) == 1, "C15: a panic did not produce exactly one Error record")
		pv := errs[0].attrs["panic"]
		want := pval
		switch x := want.(type) {
		case string:
			vxAssert(pv.Kind() == slog.KindString && pv.String() == x, "C15: Error record does not carry the panic value")
		case int:
			vxAssert(pv.Kind() == slog.KindInt64 && pv.Int64() == int64(x), "C15: Error record does not carry the panic value")
		default:
			vxAssert(pv.Kind() == slog.KindAny && pv.Any() == want, "C15: Error record does not carry the panic value")
		}
		if threshold <= LevelInfo {
			vxAssert(errs[0].attrs["tid"].String() == beg[0].attrs["tid"].String(), "C15: Error record carries a different request ID")
		}
		vxReach("panic logged")
	} else {
		vxAssert(len(errs) == 0, "C15: Error record without a panic (or below the threshold)")
	}
}

// two requests in flight at once (the second is served while the first one's handler is still running):
// their records pair up by ID
func H_C15_overlap() {
	lg := &c15Log{threshold: LevelInfo}
	l := New(lg)
	mux := httpd.NewMux()
	mux.HandleRelay(l.Relay)
	inner := vxPick(3) // what the inner request does
	mux.Handle("/fast", http.MethodGet, func(s *httpd.Store) {
		if inner == 1 {
			s.W.WriteHeader(vxInt(200, 599))
		} else if inner == 2 {
			panic("inner boom")
		}
	})
	mux.Handle("/slow", http.MethodGet, func(s *httpd.Store) {
		before := s.GetID()
		w2 := &c15W{}
		mux.ServeHTTP(w2, &http.Request{Method: http.MethodGet, URL: &url.URL{Path: "/fast"}, RequestURI: "/fast", RemoteAddr: "10.0.0.2:2"})
		vxAssert(s.GetID() == before, "C15: a request's ID changed while another request was served")
		s.W.WriteHeader(201)
	})
	w := &c15W{}
	mux.ServeHTTP(w, &http.Request{Method: http.MethodGet, URL: &url.URL{Path: "/slow"}, RequestURI: "/slow", RemoteAddr: "10.0.0.1:1"})
	// records: BEG(slow) BEG(fast) [ERR(fast)] END(fast) END(slow)
	tid := func(r c15Rec) string { return r.attrs["tid"].String() }
	var slow, fast []c15Rec
	for _, r := range lg.recs {
		if r.level != LevelInfo {
			continue
		}
		if r.attrs["path"].String() == "/slow" {
			slow = append(slow, r)
		} else {
			fast = append(fast, r)
		}
	}
	vxAssert(len(slow) == 2 && len(fast) == 2, "C15: overlapping requests did not each produce one REQ_BEG and one REQ_END")
	vxAssert(tid(slow[0]) == tid(slow[1]) && tid(fast[0]) == tid(fast[1]), "C15: REQ_BEG and REQ_END of a request carry different IDs when requests overlap")
	vxAssert(tid(slow[0]) != tid(fast[0]), "C15: two requests in flight share an ID")
	vxAssert(int(slow[1].attrs["code"].Int64()) == 201, "C15: outer request's logged status is wrong")
	vxReach("overlapping requests")
}

// two requests one after the other on one Mux (the pooled Store is reused) from different clients: the second
// request's records carry its own client IP, URI and a new ID
func H_C15_sequence() {
	lg := &c15Log{threshold: LevelInfo}
	l := New(lg)
	mux := httpd.NewMux()
	mux.HandleRelay(l.Relay)
	first := vxPick(3)
	mux.Handle("/a", http.MethodGet, func(s *httpd.Store) {
		if first == 1 {
			s.W.WriteHeader(vxInt(200, 599))
		} else if first == 2 {
			panic("first boom")
		}
	})
	mux.Handle("/b", http.MethodPost, func(s *httpd.Store) { s.W.WriteHeader(204) })
	mux.ServeHTTP(&c15W{}, &http.Request{Method: http.MethodGet, URL: &url.URL{Path: "/a"}, RequestURI: "/a", RemoteAddr: "198.51.100.7:4000"})
	n := len(lg.recs)
	w := &c15W{}
	mux.ServeHTTP(w, &http.Request{Method: http.MethodPost, URL: &url.URL{Path: "/b"}, RequestURI: "/b?x=1", RemoteAddr: "[2001:db8::2]:5000"})
	vxAssert(len(lg.recs) == n+2, "C15: second request did not produce exactly REQ_BEG and REQ_END")
	b, e := lg.recs[n], lg.recs[n+1]
	for _, r := range []c15Rec{b, e} {
		vxAssert(r.attrs["ip"].String() == "2001:db8::2" && r.attrs["method"].String() == "POST" && r.attrs["path"].String() == "/b?x=1", "C15: a record of the second request carries another request's client IP / method / URI")
	}
	vxAssert(b.attrs["tid"].String() == e.attrs["tid"].String() && b.attrs["tid"].String() != lg.recs[0].attrs["tid"].String(), "C15: second request's ID is not its own")
	vxAssert(int(e.attrs["code"].Int64()) == 204 && w.status == 204, "C15: second request's logged status is wrong")
	vxReach("two requests in sequence")
}

// http.ErrAbortHandler is outside the claim; it must at least not crash the harness
func H_C15_vacuity() {
	lg := &c15Log{threshold: LevelInfo}
	l := New(lg)
	mux := httpd.NewMux()
	mux.HandleRelay(l.Relay)
	mux.Handle("/a", http.MethodGet, func(s *httpd.Store) { s.W.WriteHeader(vxInt(200, 599)) })
	w := &c15W{}
	mux.ServeHTTP(w, &http.Request{Method: http.MethodGet, URL: &url.URL{Path: "/a"}, RequestURI: "/a", RemoteAddr: "1.2.3.4:5"})
	vxAssert(w.status != 404, "vacuity twin (expected to fail)")
}
