package logger

import (
	"errors"
	"net/http"
	"net/url"
	"strings"

	"github.com/whoisnian/glb/httpd"
)

// C15 with the three real log handlers: whatever value the request handler panics with - including error values
// whose Error method itself panics, such as a nil pointer of an error type - Relay contains the panic, sends 500
// and the handler writes REQ_BEG, one Error record and REQ_END, each as one line.

type c15LineW struct{ lines []string }

func (w *c15LineW) Write(p []byte) (int, error) {
	w.lines = append(w.lines, string(p))
	return len(p), nil
}

// an error type whose Error method dereferences its receiver (like *os.PathError, *net.OpError, ...)
type c15DerefErr struct{ msg string }

func (e *c15DerefErr) Error() string { return "deref: " + e.msg }

// a value whose String/MarshalText are never needed; plain struct
type c15Plain struct{ A, B int }

// an error whose Error method panics on purpose
type c15AngryErr struct{}

func (c15AngryErr) Error() string { panic("Error() panicked") }

func c15RealPanicValue(k int) any {
	switch k {
	case 0:
		return "boom"
	case 1:
		return errors.New("boom error")
	case 2:
		return 42
	case 3:
		var e *c15DerefErr
		return e // nil pointer of an error type: a non-nil interface whose Error method panics
	case 4:
		return &c15DerefErr{"ok"}
	case 5:
		return c15AngryErr{}
	}
	return c15Plain{1, 2}
}

const c15RealPanicKinds = 7

// engine-side replacement of fmt.Sprint (check.json func_stubs): reflection-driven formatting is outside C15
func c15Sprint(a ...any) string { return "<fmt.Sprint>" }
func c15Append(b []byte, a ...any) []byte { return append(b, "<fmt.Append>"...) }

func H_C15_realhandlers() {
	vxPoolMode(1)
	kind := vxPick(3)
	w := &c15LineW{}
	opts := NewOptions(LevelDebug, false, false)
	var l *Logger
	switch kind {
	case 0:
		l = New(NewNanoHandler(w, opts))
	case 1:
		l = New(NewTextHandler(w, opts))
	default:
		l = New(NewJsonHandler(w, opts))
	}
	mux := httpd.NewMux()
	mux.HandleRelay(l.Relay)
	pk := vxPick(c15RealPanicKinds)
	after := vxBool() // panic after a status was written
	mux.Handle("/a", http.MethodGet, func(s *httpd.Store) {
		if after {
			s.W.WriteHeader(202)
		}
		panic(c15RealPanicValue(pk))
	})
	rw := &c15W{}
	req := &http.Request{Method: http.MethodGet, URL: &url.URL{Path: "/a"}, RequestURI: "/a", RemoteAddr: "10.0.0.7:55"}
	mux.ServeHTTP(rw, req) // a panic escaping here is a violation (engine default, and natively)
	if after {
		vxAssert(rw.status == 202, "C15: status on the wire differs from what the handler wrote")
	} else {
		vxAssert(rw.status == 500, "C15: handler panicked before writing but the client did not receive 500")
	}
	vxAssert(len(w.lines) == 3, "C15: a panicking request did not produce exactly REQ_BEG, one Error record and REQ_END")
	for _, ln := range w.lines {
		vxAssert(strings.Count(ln, "\n") >= 1 && ln[len(ln)-1] == '\n', "C15: a record is not a complete line")
	}
	vxAssert(strings.Contains(w.lines[0], "REQ_BEG") && strings.Contains(w.lines[2], "REQ_END"), "C15: REQ_BEG / REQ_END missing or out of order")
	want := "500"
	if after {
		want = "202"
	}
	vxAssert(strings.Contains(w.lines[2], want), "C15: REQ_END does not carry the status the client received")
	if pk >= 3 && pk != 4 && pk != 6 {
		vxReach("panic value whose Error method panics")
	}
}
