package tasklane

import (
	"context"
	"time"
)

// Setup harness for the TaskLane protocol properties (C06, C07, C08, C14): builds a real TaskLane
// (the 2 x laneSize goroutines started by New become processes), producer processes calling the
// real PushTask, a canceller, optionally a Status() poller and a Wait() caller. Task bodies are the
// environment (vxStart: enter, then return / panic / never).

type vxTask struct{ id int }

func (t *vxTask) Start() { vxStart(t.id) }

// minimal context: Done() is a channel the canceller closes; Err() is non-nil iff it is closed
type vxCtx struct {
	done chan struct{}
	err  error
}

func (c *vxCtx) Deadline() (time.Time, bool) { return time.Time{}, false }
func (c *vxCtx) Done() <-chan struct{}       { return c.done }
func (c *vxCtx) Err() error {
	select {
	case <-c.done:
		return c.err
	default:
		return nil
	}
}
func (c *vxCtx) Value(any) any { return nil }

func vxErrCode(err error) int {
	switch {
	case err == nil:
		return 0
	case err == ErrTimeout:
		return 2
	}
	return 1
}

func S_tasklane() {
	L, Q, N, P := vxParam("lanes"), vxParam("queue"), vxParam("tasks"), vxParam("producers")
	ctx := &vxCtx{done: make(chan struct{})}
	tl := New(ctx, L, Q)
	tasks := make([]*vxTask, N)
	for k := range tasks {
		tasks[k] = &vxTask{k}
		vxTok(k, tasks[k])
	}
	for p := 0; p < P; p++ {
		p := p
		vxProc("producer", func() {
			for k := p; k < N; k += P {
				lane := vxPick(L)
				if vxParam("onelane") == 1 {
					lane = 0
				}
				vxObs("call", k)
				err := tl.PushTask(tasks[k], lane)
				vxObs("push", k, lane, vxErrCode(err))
			}
		})
	}
	vxProc("canceller", func() {
		if vxPick(2) == 0 {
			ctx.err = context.Canceled
		} else {
			ctx.err = context.DeadlineExceeded
		}
		close(ctx.done)
	})
	for i := 0; i < vxParam("status"); i++ { // Status() may be polled from several goroutines
		vxProc("status", func() {
			st := tl.Status()
			vxObs("status", st.PendingTask, st.LastPanic)
		})
	}
	if vxParam("wait") == 1 {
		vxProc("waiter", func() {
			tl.Wait()
			vxObs("waited")
		})
	}
}
