package netutil

import (
	"net"
)

// C11 — IPv4Filter answers membership exactly as the set of CIDRs added and not removed
// (DESIGN.md section 3, C11; oracle B.6). One operation from an ARBITRARY filter state satisfying
// the representation invariant InvF, so histories of any length are covered; listSize is shrunk by
// a source overlay (nothing depends on its value but the loop bound and the switch threshold).

// specCanon: network address of ip for prefix length l (1..32), written independently of ipv4Masks
func specCanon(ip uint32, l int) uint32 {
	if l >= 32 {
		return ip
	}
	return ip &^ (uint32(1)<<uint(32-l) - 1)
}

// specCanonical: (p,l) is a canonical stored entry (host bits zero; the removed marker is (0,0))
func specCanonical(p uint32, l uint32) bool {
	return vxAnd(l <= 32, p<<l == 0) // (a shift by 32 or more yields 0 in Go)
}

// c11State: an arbitrary filter state satisfying InvF
func c11State() *IPv4Filter {
	f := NewIPv4Filter()
	if vxBool() {
		f.matchAll.Store(true)
	}
	if vxPick(2) == 0 {
		f.mode = modeList
		f.index = vxInt(0, listSize)
		for i := 0; i < listSize; i++ {
			p, l := vxU32(), vxU32()
			vxAssume(specCanonical(p, l))
			f.ipList[i] = [2]uint32{p, l}
		}
		vxReach("pre-state in list mode")
	} else {
		f.mode = modeMaps
		f.index = listSize
		for i := range f.ipMaps {
			f.ipMaps[i] = vxSymMapU32Bool("pre")
		}
		vxReach("pre-state in maps mode")
	}
	return f
}

// specHas: is the canonical entry (p,l), 1 <= l <= 32, stored?
func specHas(f *IPv4Filter, p uint32, l int) bool {
	if f.mode == modeList {
		has := false
		for i := 0; i < listSize; i++ {
			has = vxOr(has, vxAnd(i < f.index, vxAnd(f.ipList[i][0] == p, f.ipList[i][1] == uint32(l))))
		}
		return has
	}
	return f.ipMaps[l-1][p]
}

func c11InvF(f *IPv4Filter) bool {
	ok := f.index >= 0 && f.index <= listSize
	if f.mode == modeList {
		for i := 0; i < listSize; i++ {
			ok = vxAnd(ok, vxOr(i >= f.index, specCanonical(f.ipList[i][0], f.ipList[i][1])))
		}
		return ok
	}
	if f.mode != modeMaps {
		return false
	}
	for i := range f.ipMaps {
		if f.ipMaps[i] == nil {
			return false
		}
	}
	return ok
}

// c11CIDR: a symbolic argument: 4 arbitrary address bytes and 4 arbitrary mask bytes, or malformed shapes
func c11CIDR() (c *net.IPNet, valid bool, ip uint32, ones int) {
	ipb := []byte(vxStringN(4))
	mb := []byte(vxStringN(4))
	shape := vxPick(5)
	switch shape {
	case 0: // well-formed sizes
	case 1: // 16-byte address
		ipb = append(make([]byte, 12), ipb...)
	case 2: // 16-byte mask
		mb = append([]byte{255, 255, 255, 255, 255, 255, 255, 255, 255, 255, 255, 255}, mb...)
	case 3: // short address
		ipb = ipb[:3]
	case 4: // short mask
		mb = mb[:2]
	}
	c = &net.IPNet{IP: net.IP(ipb), Mask: net.IPMask(mb)}
	if shape != 0 {
		return c, false, 0, 0
	}
	m := uint32(mb[0])<<24 | uint32(mb[1])<<16 | uint32(mb[2])<<8 | uint32(mb[3])
	ip = uint32(ipb[0])<<24 | uint32(ipb[1])<<16 | uint32(ipb[2])<<8 | uint32(ipb[3])
	for o := 0; o <= 32; o++ {
		var want uint32
		if o > 0 {
			want = ^uint32(0) << uint(32-o)
		}
		if m == want {
			return c, true, ip, o
		}
	}
	return c, false, 0, 0 // non-contiguous mask
}

func c11Probe() (uint32, int) {
	l := vxInt(1, 32) // symbolic prefix length: one path covers all 32
	p := vxU32()
	vxAssume(specCanonical(p, uint32(l)))
	return p, l
}

func X_C11_add() {
	f := c11State()
	c, valid, ip, ones := c11CIDR()
	p, l := c11Probe()
	before := specHas(f, p, l)
	allBefore := f.matchAll.Load()
	err := f.Add(c)
	if !valid {
		vxReach("add: invalid argument")
		vxAssert(err == ErrInvalidIPv4CIDR, "C11: Add accepted an argument that is not an IPv4 CIDR")
		vxAssert(specHas(f, p, l) == before && f.matchAll.Load() == allBefore, "C11: rejected Add changed the filter")
		return
	}
	vxAssert(err == nil, "C11: Add rejected a valid IPv4 CIDR")
	vxAssert(c11InvF(f), "C11: Add broke the representation invariant")
	if ones == 0 {
		vxAssert(f.matchAll.Load() && specHas(f, p, l) == before, "C11: Add(0.0.0.0/0) must set match-all only")
		return
	}
	if f.mode == modeMaps && before == false {
		vxReach("add: maps mode")
	}
	want := vxOr(before, vxAnd(l == ones, p == specCanon(ip, ones)))
	vxAssert(specHas(f, p, l) == want, "C11: after Add the stored set is not old set + {canon(cidr)}")
	vxAssert(f.matchAll.Load() == allBefore, "C11: Add changed match-all")
}

func X_C11_remove() {
	f := c11State()
	c, valid, ip, ones := c11CIDR()
	p, l := c11Probe()
	before := specHas(f, p, l)
	allBefore := f.matchAll.Load()
	err := f.Remove(c)
	if !valid {
		vxAssert(err == ErrInvalidIPv4CIDR, "C11: Remove accepted an argument that is not an IPv4 CIDR")
		vxAssert(specHas(f, p, l) == before && f.matchAll.Load() == allBefore, "C11: rejected Remove changed the filter")
		return
	}
	vxAssert(err == nil, "C11: Remove rejected a valid IPv4 CIDR")
	vxAssert(c11InvF(f), "C11: Remove broke the representation invariant")
	if ones == 0 {
		vxAssert(!f.matchAll.Load() && specHas(f, p, l) == before, "C11: Remove(0.0.0.0/0) must clear match-all only")
		return
	}
	want := vxAnd(before, !vxAnd(l == ones, p == specCanon(ip, ones)))
	vxAssert(specHas(f, p, l) == want, "C11: after Remove the stored set is not old set - {canon(cidr)} (every duplicate must go)")
	vxAssert(f.matchAll.Load() == allBefore, "C11: Remove changed match-all")
	vxReach("remove: valid argument")
}

func X_C11_contains() {
	f := c11State()
	raw := []byte(vxStringN(4))
	nip := uint32(raw[0])<<24 | uint32(raw[1])<<16 | uint32(raw[2])<<8 | uint32(raw[3])
	var ip net.IP
	isV4 := true
	switch vxPick(4) {
	case 0:
		ip = net.IP(raw)
	case 1: // 16-byte form of the same IPv4 address (what net.ParseIP returns)
		ip = net.IP(append([]byte{0, 0, 0, 0, 0, 0, 0, 0, 0, 0, 0xff, 0xff}, raw...))
		vxReach("contains: 16-byte IPv4 address")
	case 2: // a 16-byte address that is not IPv4
		ip = net.IP(append([]byte{0x20, 0x01, 0, 0, 0, 0, 0, 0, 0, 0, 0, 0}, raw...))
		isV4 = false
	case 3:
		ip = net.IP(raw[:3])
		isV4 = false
	}
	want := f.matchAll.Load()
	if isV4 {
		for l := 1; l <= 32; l++ {
			want = vxOr(want, specHas(f, specCanon(nip, l), l))
		}
	}
	got := f.Contains(ip)
	if isV4 {
		vxAssert(got == want, "C11: Contains disagrees with the set of stored CIDRs")
	} else {
		vxAssert(got == f.matchAll.Load(), "C11: Contains matched an address that is not IPv4")
	}
}

// bounded histories from the constructor crossing the list->maps switch: reachability witnesses for InvF
func X_C11_history() {
	f := NewIPv4Filter()
	n := vxParam("histOps")
	type ent struct {
		ip   uint32
		ones int
	}
	var model []ent
	mk := func(ip uint32, ones int) *net.IPNet {
		return &net.IPNet{IP: net.IPv4(byte(ip>>24), byte(ip>>16), byte(ip>>8), byte(ip)).To4(), Mask: net.CIDRMask(ones, 32)}
	}
	pool := []ent{{0x0a000001, 8}, {0x0a010000, 16}, {0x80000000, 1}}
	for i := 0; i < n; i++ {
		e := pool[vxPick(len(pool))]
		if vxPick(2) == 0 {
			vxAssert(f.Remove(mk(e.ip, e.ones)) == nil, "C11: Remove failed")
			var keep []ent
			for _, m := range model {
				if !(m.ones == e.ones && specCanon(m.ip, m.ones) == specCanon(e.ip, e.ones)) {
					keep = append(keep, m)
				}
			}
			model = keep
		} else {
			vxAssert(f.Add(mk(e.ip, e.ones)) == nil, "C11: Add failed")
			model = append(model, e)
		}
	}
	if f.mode == modeMaps {
		vxReach("history crossed the list->maps switch")
	}
	raw := []byte(vxStringN(4))
	nip := uint32(raw[0])<<24 | uint32(raw[1])<<16 | uint32(raw[2])<<8 | uint32(raw[3])
	want := false
	for _, m := range model {
		want = vxOr(want, specCanon(nip, m.ones) == specCanon(m.ip, m.ones))
	}
	vxAssert(f.Contains(net.IP(raw)) == want, "C11: Contains after a history disagrees with the set model")
	vxAssert(c11InvF(f), "C11: a history from the constructor left the representation invariant")
}

func X_C11_vacuity() {
	f := c11State()
	raw := []byte(vxStringN(4))
	vxAssert(!f.Contains(net.IP(raw)), "vacuity twin (expected to fail)")
}
