package netutil

import "net"

// C12 — IPv4Filter under concurrency, sequential half (DESIGN.md 2.4 lock-set monitor, section 3 C12):
// on EVERY path of Add / Remove / Contains from an arbitrary state, every plain access to the filter's
// fields and maps happens while the RWMutex is held in a sufficient mode (write => Lock, read => Lock or
// RLock), the lock is released when the call returns, and match-all is touched only atomically.
// With that, each critical section is one atomic transition, described by C11's lemmas.

func c12Watch(f *IPv4Filter) {
	for i := range f.ipMaps {
		if f.ipMaps[i] != nil {
			vxLocksetWatch(f.ipMaps[i], &f.mutex)
		}
	}
	vxLocksetWatch(f, &f.mutex)
	vxLocksetExempt(".0") // the mutex itself
	vxLocksetExempt(".1") // matchAll: a pointer set once by the constructor, its target is only accessed atomically
}

func H_C12_lockset() {
	f := c11State()
	ptr := f.matchAll
	c12Watch(f)
	switch vxPick(3) {
	case 0:
		c, _, _, _ := c11CIDR()
		f.Add(c)
		vxReach("lockset: Add")
	case 1:
		c, _, _, _ := c11CIDR()
		f.Remove(c)
		vxReach("lockset: Remove")
	case 2:
		raw := []byte(vxStringN(4))
		f.Contains(net.IP(raw))
		vxReach("lockset: Contains")
	}
	vxLocksetPause(true)
	vxAssert(vxLocksetBad() == 0, "C12: a field or map of the filter was accessed without holding the mutex in a sufficient mode")
	vxAssert(!vxLockHeld(&f.mutex), "C12: the mutex is still held when the call returns")
	vxAssert(f.matchAll == ptr, "C12: the match-all pointer was replaced")
	if vxLocksetAccesses() > 0 {
		vxReach("lockset: guarded accesses observed")
	}
}

func H_C12_vacuity() {
	f := c11State()
	c12Watch(f)
	raw := []byte(vxStringN(4))
	f.Contains(net.IP(raw))
	vxLocksetPause(true)
	_ = f.index // the harness reading a field after the call is NOT what must fail; force a failure instead:
	vxAssert(vxLocksetAccesses() == 0, "vacuity twin (expected to fail)")
}
