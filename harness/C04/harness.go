package httpd

import (
	"net/http"
	"net/url"
)

// C04 — router precedence, exactly one handler, no panic (DESIGN.md section 3, C04; oracle B.4).

var c04Methods = []string{http.MethodGet, http.MethodPost, MethodAll, http.MethodHead, http.MethodPut, http.MethodPatch, http.MethodDelete, http.MethodConnect, http.MethodOptions, http.MethodTrace}

const (
	c04Lit = iota
	c04Param
	c04Star
)

type c04Seg struct {
	kind int
	text string // literal text or parameter name
}

type c04Route struct {
	pattern string
	method  string
	segs    []c04Seg
}

// specParsePattern: segments of a pattern (empty fragments ignored; '*' ends the pattern).
func specParsePattern(p string) []c04Seg {
	var segs []c04Seg
	start := 1
	for i := 1; i <= len(p); i++ {
		if i == len(p) || p[i] == '/' {
			seg := p[start:i]
			start = i + 1
			switch {
			case seg == "":
			case seg == "*":
				return append(segs, c04Seg{kind: c04Star})
			case seg[0] == ':':
				segs = append(segs, c04Seg{kind: c04Param, text: seg[1:]})
			default:
				segs = append(segs, c04Seg{kind: c04Lit, text: seg})
			}
		}
	}
	return segs
}

type c04Result struct {
	route  int // index into routes, -1 = no-route handler
	names  []string
	values []string
}

// specRoute: greedy walk literal > :param > *, empty segments ignored except a final one,
// '/' matched by the '/' route first, exact method before '*'. path must start with '/'.
func specRoute(routes []c04Route, method, path string) c04Result {
	pickMethod := func(cand []int, n int, star bool) int {
		best := -1
		for _, ri := range cand {
			r := routes[ri]
			if len(r.segs) != n {
				continue
			}
			if star != (n > 0 && r.segs[n-1].kind == c04Star) {
				continue
			}
			if r.method == method {
				return ri
			}
			if r.method == MethodAll && best < 0 {
				best = ri
			}
		}
		return best
	}
	all := make([]int, len(routes))
	for i := range routes {
		all[i] = i
	}
	if path == "/" {
		if ri := pickMethod(all, 0, false); ri >= 0 {
			return c04Result{route: ri}
		}
	}
	cand := all
	var values []string
	n := 0
	start := 1
	for i := 1; i <= len(path); i++ {
		if i < len(path) && path[i] != '/' {
			continue
		}
		seg := path[start:i]
		segStart := start
		start = i + 1
		if seg == "" && i < len(path) {
			continue // empty segment that is not the final one
		}
		var lit, par, star []int
		for _, ri := range cand {
			r := routes[ri]
			if len(r.segs) <= n {
				continue
			}
			switch s := r.segs[n]; s.kind {
			case c04Lit:
				if seg != "" && s.text == seg {
					lit = append(lit, ri)
				}
			case c04Param:
				par = append(par, ri)
			case c04Star:
				star = append(star, ri)
			}
		}
		switch {
		case len(lit) > 0:
			cand = lit
		case len(par) > 0:
			cand = par
			values = append(values, seg)
		case len(star) > 0:
			cand = star
			values = append(values, path[segStart:])
			n++
			ri := pickMethod(cand, n, true)
			if ri < 0 {
				return c04Result{route: -1}
			}
			return c04Result{route: ri, values: values}
		default:
			return c04Result{route: -1}
		}
		n++
	}
	ri := pickMethod(cand, n, false)
	if ri < 0 {
		return c04Result{route: -1}
	}
	return c04Result{route: ri, values: values}
}

type c04Obs struct {
	calls   int
	handler int // index of the handler that ran; -1 = no-route
	info    *RouteInfo
	store   *Store
	values  []string
	anyVal  string
	status  int
}

type c04W struct{ h http.Header }

func (w *c04W) Header() http.Header         { return w.h }
func (w *c04W) Write(b []byte) (int, error) { return len(b), nil }
func (w *c04W) WriteHeader(int)             {}

// c04Register registers the route; false if Handle rejected it (panicked).
func c04Register(mux *Mux, p, m string, h HandlerFunc) (ok bool) {
	defer func() {
		if recover() != nil {
			ok = false
		}
	}()
	mux.Handle(p, m, h)
	return true
}

func c04Names(segs []c04Seg) []string {
	var names []string
	for _, s := range segs {
		if s.kind == c04Param {
			names = append(names, s.text)
		} else if s.kind == c04Star {
			names = append(names, routeParamAny)
		}
	}
	return names
}

func c04Check(routes []c04Route, method, path string) {
	mux := NewMux()
	obs := &c04Obs{handler: -2}
	for i := range routes {
		i := i
		r := &routes[i]
		vxAssume(len(r.pattern) > 0 && r.pattern[0] == '/')
		r.segs = specParsePattern(r.pattern)
		names := c04Names(r.segs)
		ok := c04Register(mux, r.pattern, r.method, func(s *Store) {
			obs.calls++
			obs.handler = i
			obs.info = s.I
			obs.store = s
			obs.values = nil
			for _, n := range names {
				obs.values = append(obs.values, s.RouteParam(n))
			}
			obs.anyVal = s.RouteParamAny()
		})
		vxAssume(ok)
	}
	mux.HandleNoRoute(func(s *Store) {
		obs.calls++
		obs.handler = -1
		obs.info = s.I
		obs.anyVal = s.RouteParamAny()
	})
	req := &http.Request{Method: method, URL: &url.URL{Path: path}}
	mux.ServeHTTP(&c04W{}, req) // a panic here is a violation (engine default)
	vxAssert(obs.calls == 1, "C04: not exactly one handler invocation")

	var want c04Result
	rooted := len(path) > 0 && path[0] == '/'
	if rooted {
		want = specRoute(routes, method, path)
	} else {
		vxReach("non-rooted request path")
		// the statement does not say how a non-rooted path splits: either no-route or the walk of "/"+path
		if obs.handler == -1 {
			return
		}
		want = specRoute(routes, method, "/"+path)
	}
	vxAssert(obs.handler == want.route, "C04: a different handler ran than the documented precedence selects")
	if want.route < 0 {
		vxReach("no-route handler")
		return
	}
	vxReach("route matched")
	r := routes[want.route]
	vxAssert(obs.info != nil && obs.info.Path == r.pattern && obs.info.Method == r.method, "C04: handler saw another route's RouteInfo")
	names := c04Names(r.segs)
	vxAssert(len(names) == len(want.values) && len(obs.values) == len(names), "C04: parameter count mismatch")
	for k := range names {
		if k == 0 {
			vxReach("parameter bound")
		}
		vxAssert(obs.values[k] == want.values[k], "C04: parameter not bound to the corresponding path text")
	}
	if len(names) > 0 && names[len(names)-1] == routeParamAny {
		vxAssert(obs.anyVal == want.values[len(names)-1], "C04: RouteParamAny differs from the rest of the path")
	}
}

func c04Method() string {
	k := vxPick(len(c04Methods) + 2)
	switch {
	case k < len(c04Methods):
		return c04Methods[k]
	case k == len(c04Methods):
		return ""
	}
	return vxString(2)
}

// fully symbolic small tables
func H_C04_bytes() {
	n := 1 + vxPick(vxParam("maxRoutes"))
	routes := make([]c04Route, n)
	for i := range routes {
		routes[i].pattern = vxString(vxParam("patLen"))
		routes[i].method = c04Methods[vxPick(3)]
	}
	method := c04Methods[vxPick(3)]
	path := vxString(vxParam("pathLen"))
	c04Check(routes, method, path)
}

// fixed table with every kind of segment; symbolic method (all ten, "", arbitrary) and longer symbolic path
func H_C04_table() {
	routes := []c04Route{
		{pattern: "/", method: http.MethodGet},
		{pattern: "/a", method: http.MethodGet},
		{pattern: "/a/:x", method: MethodAll},
		{pattern: "/a/b", method: http.MethodPost},
		{pattern: "/a/:y/c", method: http.MethodGet},
		{pattern: "/s/*", method: http.MethodGet},
		{pattern: "/:p/:q", method: http.MethodDelete},
	}
	c04Check(routes, c04Method(), vxString(vxParam("tablePathLen")))
}

func H_C04_vacuity() {
	routes := []c04Route{{pattern: "/a/:x", method: MethodAll}}
	path := vxString(4)
	mux := NewMux()
	hit := 0
	mux.Handle("/a/:x", MethodAll, func(s *Store) { hit++ })
	mux.HandleNoRoute(func(s *Store) {})
	vxAssume(len(path) > 0 && path[0] == '/')
	mux.ServeHTTP(&c04W{}, &http.Request{Method: "GET", URL: &url.URL{Path: path}})
	_ = routes
	vxAssert(hit == 0, "vacuity twin (expected to fail)")
}
