package config

import (
	"encoding/base64"
	"strconv"
	"time"
)

// C09 — config sources obey priority: command line > environment > JSON > default
// (DESIGN.md section 3, C09). The real NewFlagSet (through thin reflect intrinsics), Parse, argParse,
// envParse, parseConfigJson, every Value.Set and strutil.Underscore are executed; json.Unmarshal is
// replaced, in the engine only, by its contract on the harness struct (c09JsonStub applies exactly the
// members the JSON text mentions); native replay runs the real one on the same text.

type c09Sub struct {
	Port uint   `flag:"port,8080,Listen port"`
	Addr string `flag:"|sub-name|def|Name, with a comma"` // same Go field name as c09Cfg.Addr: only the group tells the CFG_* names apart
}

type c09Cfg struct {
	Debug bool          `flag:"d,false,Enable debug output"`
	Count int           `flag:"count,5,An int"`
	Big   int64         `flag:"big,-9,An int64"`
	U     uint          `flag:"u,3,A uint"`
	U64   uint64        `flag:"|u64|18446744073709551615|max uint64"`
	Addr  string        `flag:"l,0.0.0.0:80,Server listen addr"`
	Ratio float64       `flag:"ratio,0.5,A float"`
	Wait  time.Duration `flag:"wait,1s,A duration"`
	Key   []byte        `flag:"key,a2V5,base64 bytes"`
	DB    c09Sub
	NoTag int
}

// another configuration struct handled by an earlier FlagSet in the same process: it shares Go field names with
// c09Cfg (at other nesting levels), so nothing learnt about it may leak into the FlagSet under test
type c09OtherSub struct {
	Count int `flag:"o-sub-count,77,Another count"`
}

type c09Other struct {
	Addr string `flag:"o-addr,other:1,Another addr"`
	Port uint   `flag:"o-port,1,Another port"`
	DB   c09OtherSub
}

type c09Field struct {
	flag, env, kind, def string
}

// expected flag / environment names, written by hand from the documentation
var c09Fields = []c09Field{
	{"d", "CFG_DEBUG", "bool", "false"},
	{"count", "CFG_COUNT", "int", "5"},
	{"big", "CFG_BIG", "int64", "-9"},
	{"u", "CFG_U", "uint", "3"},
	{"u64", "CFG_U64", "uint64", "18446744073709551615"},
	{"l", "CFG_ADDR", "string", "0.0.0.0:80"},
	{"ratio", "CFG_RATIO", "float64", "0.5"},
	{"wait", "CFG_WAIT", "duration", "1s"},
	{"key", "CFG_KEY", "bytes", "a2V5"},
	{"port", "CFG_DB_PORT", "uint", "8080"},
	{"sub-name", "CFG_DB_ADDR", "string", "def"},
	{"notag", "CFG_NO_TAG", "int", ""},
}

// JSON member for field i (value from a small concrete set per type) and the matching plan
var c09JSON = []string{
	`{"Debug":true}`, `{"Count":-17}`, `{"Big":9007199254740993}`, `{"U":41}`, `{"U64":1}`, `{"Addr":"json:1"}`,
	`{"Ratio":2.25}`, `{"Wait":2500000000}`, `{"Key":"anNvbg=="}`, `{"DB":{"Port":9}}`, `{"DB":{"Addr":"jn"}}`, `{"NoTag":12}`,
}


func c09Apply(cfg *c09Cfg, i int) {
	switch i {
	case 0:
		cfg.Debug = true
	case 1:
		cfg.Count = -17
	case 2:
		cfg.Big = 9007199254740993
	case 3:
		cfg.U = 41
	case 4:
		cfg.U64 = 1
	case 5:
		cfg.Addr = "json:1"
	case 6:
		cfg.Ratio = 2.25
	case 7:
		cfg.Wait = 2500 * time.Millisecond
	case 8:
		cfg.Key = []byte("json")
	case 9:
		cfg.DB.Port = 9
	case 10:
		cfg.DB.Addr = "jn"
	case 11:
		cfg.NoTag = 12
	}
}

// engine-side replacement of config.JsonUnmarshal (see check.json func_stubs)
func c09JsonStub(data []byte, p any) error {
	for i, text := range c09JSON {
		if string(data) == text {
			if c, ok := p.(*c09Cfg); ok {
				c09Apply(c, i)
			}
		}
	}
	return nil
}

type c09Val struct {
	b   bool
	i   int64
	u   uint64
	s   string
	f   float64
	d   time.Duration
	bs  []byte
	err bool
}

// interpret: the trusted reading of a value text for a kind (empty text = zero value)
func c09Interpret(kind, text string) (v c09Val) {
	if text == "" {
		return v
	}
	var err error
	switch kind {
	case "bool":
		v.b, err = strconv.ParseBool(text)
	case "int":
		v.i, err = strconv.ParseInt(text, 0, strconv.IntSize)
	case "int64":
		v.i, err = strconv.ParseInt(text, 0, 64)
	case "uint":
		v.u, err = strconv.ParseUint(text, 0, strconv.IntSize)
	case "uint64":
		v.u, err = strconv.ParseUint(text, 0, 64)
	case "string":
		v.s = text
	case "float64":
		v.f, err = strconv.ParseFloat(text, 64)
	case "duration":
		v.d, err = time.ParseDuration(text)
	case "bytes":
		v.bs, err = base64.StdEncoding.DecodeString(text)
	}
	v.err = err != nil
	return v
}

func c09Get(cfg *c09Cfg, i int) (v c09Val) {
	switch i {
	case 0:
		v.b = cfg.Debug
	case 1:
		v.i = int64(cfg.Count)
	case 2:
		v.i = cfg.Big
	case 3:
		v.u = uint64(cfg.U)
	case 4:
		v.u = cfg.U64
	case 5:
		v.s = cfg.Addr
	case 6:
		v.f = cfg.Ratio
	case 7:
		v.d = cfg.Wait
	case 8:
		v.bs = cfg.Key
	case 9:
		v.u = uint64(cfg.DB.Port)
	case 10:
		v.s = cfg.DB.Addr
	case 11:
		v.i = int64(cfg.NoTag)
	}
	return v
}

func c09Same(a, b c09Val) bool {
	return a.b == b.b && a.i == b.i && a.u == b.u && a.s == b.s && a.f == b.f && a.d == b.d && string(a.bs) == string(b.bs)
}

// a value text for a source: symbolic for the integer / bool / string kinds, from a small set otherwise
func c09Text(kind string) string {
	switch kind {
	case "float64":
		return []string{"1.5", "", "x1", "-0"}[vxPick(4)]
	case "duration":
		return []string{"90m", "", "1x", "0"}[vxPick(4)]
	case "bytes":
		return []string{"YWJj", "", "!!", "YQ=="}[vxPick(4)]
	}
	return vxString(vxParam("textLen"))
}

func H_C09_priority() {
	var earlier c09Other
	if of, oerr := NewFlagSet(&earlier); oerr == nil {
		of.Parse(nil)
	}
	fi := vxPick(len(c09Fields))
	fld := c09Fields[fi]
	cli, env, js := vxPick(2) == 1, vxPick(2) == 1, vxPick(2) == 1
	var tc, te string
	var argv []string
	if env {
		te = c09Text(fld.kind)
		for k := 0; k < len(te); k++ {
			vxAssume(te[k] != 0) // an environment value cannot contain NUL
		}
		vxSetEnv(fld.env, te)
	} else {
		vxUnsetEnv(fld.env)
	}
	vxUnsetEnv("CFG_CONFIG_B64")
	// the JSON document is the file named by -config, else CFG_CONFIG_B64: when both carriers are present
	// the environment one is not a source at all. other = a second field only the JSON document mentions.
	other, fo := -1, (fi+5)%len(c09Fields)
	if js {
		switch vxPick(3) {
		case 0:
			path := vxWriteFile("cfg.json", []byte(c09JSON[fi]))
			argv = append(argv, "-config", path)
			vxReach("JSON from file")
		case 1:
			vxSetEnv("CFG_CONFIG_B64", base64.StdEncoding.EncodeToString([]byte(c09JSON[fi])))
			vxReach("JSON from CFG_CONFIG_B64")
		case 2: // both carriers: the file mentions the field, CFG_CONFIG_B64 mentions another one and must be ignored
			path := vxWriteFile("cfg.json", []byte(c09JSON[fi]))
			argv = append(argv, "-config", path)
			vxSetEnv("CFG_CONFIG_B64", base64.StdEncoding.EncodeToString([]byte(c09JSON[fo])))
			vxReach("both JSON carriers present")
		}
	} else if vxPick(2) == 1 {
		// both carriers, the field only in the ignored one: JSON is no source for it; the file's field holds the JSON value
		path := vxWriteFile("cfg.json", []byte(c09JSON[fo]))
		argv = append(argv, "-config", path)
		vxSetEnv("CFG_CONFIG_B64", base64.StdEncoding.EncodeToString([]byte(c09JSON[fi])))
		other = fo
	}
	if cli {
		tc = c09Text(fld.kind)
		if fld.kind != "bool" && vxPick(2) == 1 {
			argv = append(argv, "--"+fld.flag, tc)
		} else {
			argv = append(argv, "-"+fld.flag+"="+tc)
		}
	}
	var cfg c09Cfg
	f, err := NewFlagSet(&cfg)
	vxAssert(err == nil && f != nil, "C09: NewFlagSet rejected the configuration struct")
	perr := f.Parse(argv)

	// the specification
	var want c09Val
	switch {
	case cli:
		want = c09Interpret(fld.kind, tc)
	case env:
		want = c09Interpret(fld.kind, te)
	case js:
		var tmp c09Cfg
		c09Apply(&tmp, fi)
		want = c09Get(&tmp, fi)
	default:
		want = c09Interpret(fld.kind, fld.def)
	}
	if want.err {
		vxAssert(perr != nil, "C09: the winning source's text is not a value of the field's type but Parse returned nil")
		vxReach("unparsable winning text")
		return
	}
	vxAssert(perr == nil, "C09: Parse failed although every winning text is valid")
	vxAssert(c09Same(c09Get(&cfg, fi), want), "C09: field does not hold the value of the highest-priority source that mentions it")
	// every other field keeps its default
	for j := range c09Fields {
		if j == other {
			var tmp c09Cfg
			c09Apply(&tmp, j)
			vxAssert(c09Same(c09Get(&cfg, j), c09Get(&tmp, j)), "C09: a field only the -config file mentions does not hold the file's value")
		} else if j != fi {
			vxAssert(c09Same(c09Get(&cfg, j), c09Interpret(c09Fields[j].kind, c09Fields[j].def)), "C09: a field no source mentions lost its default")
		}
	}
	if cli && env && js {
		vxReach("all four sources present")
	}
}

func H_C09_vacuity() {
	var cfg c09Cfg
	f, _ := NewFlagSet(&cfg)
	vxSetEnv("CFG_COUNT", "7")
	f.Parse(nil)
	vxAssert(cfg.Count == 5, "vacuity twin (expected to fail)")
}
