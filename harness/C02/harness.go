package logger

import (
	"io"
	"log/slog"
	"strings"
	"sync"
)

// C02 — one Write per record, carrying the whole line, serialised by the shared mutex
// (DESIGN.md section 3, C02: sequential part + lock discipline + ownership).

type c02Rec struct {
	mu       *sync.Mutex // the handler's outMu (the harness is in-package)
	writes   []string
	unlocked int // Write calls that happened while the mutex was not held
	freed    int // Write calls whose argument lives in a buffer that is already back in the pool
}

func (w *c02Rec) Write(p []byte) (int, error) {
	if w.mu != nil && !vxLockHeld(w.mu) {
		w.unlocked++
	}
	if vxInPool(p) {
		w.freed++
	}
	w.writes = append(w.writes, string(p))
	return len(p), nil
}

func c02Root(kind int, w io.Writer, threshold slog.Level) (*Logger, *sync.Mutex) {
	opts := NewOptions(threshold, false, false)
	switch kind {
	case 0:
		h := NewNanoHandler(w, opts)
		return New(h), h.outMu
	case 1:
		h := NewTextHandler(w, opts)
		return New(h), h.outMu
	}
	h := NewJsonHandler(w, opts)
	return New(h), h.outMu
}

func c02Mutex(l *Logger) *sync.Mutex {
	switch h := l.h.(type) {
	case *NanoHandler:
		return h.outMu
	case *TextHandler:
		return h.outMu
	case *JsonHandler:
		return h.outMu
	}
	return nil
}

var c02Levels = []slog.Level{LevelDebug, LevelInfo, LevelWarn, LevelError, LevelFatal}

func c02Log(l *Logger, lvl int, msg string) {
	switch lvl {
	case 0:
		l.Debug(msg, "k", 1)
	case 1:
		l.Info(msg, "k", 1)
	case 2:
		l.Warn(msg, "k", 1)
	case 3:
		l.Error(msg, "k", 1)
	}
}

// c02Alone: the line a fresh logger of this kind writes for the record (fresh pool: New buffer). It is computed
// before anything else is logged: natively the pool is the real, process-wide one, and a reference computed
// afterwards would be polluted in the same way as the line under test.
func c02Alone(kind int, lvl int, msg string) string {
	vxPoolMode(2)
	w := &c02Rec{}
	l, _ := c02Root(kind, w, LevelDebug)
	c02Log(l, lvl, msg)
	vxPoolMode(0)
	vxPoolClear()
	return w.writes[0]
}


// c02NoTime cuts the time field off a line: two records logged one after the other carry different instants on a
// real clock (the engine's clock stub returns fixed instants), and the time is not what is being compared
func c02NoTime(kind int, line string) string {
	switch kind {
	case 0: // "2006-01-02 15:04:05 [I] ..."
		if len(line) >= 19 {
			return line[19:]
		}
	case 1: // "time=2006-01-02T15:04:05Z level=..."
		for i := 0; i < len(line); i++ {
			if line[i] == ' ' {
				return line[i:]
			}
		}
	default: // {"time":"2006-01-02T15:04:05.000000006Z","level":...
		for i := 9; i+1 < len(line); i++ {
			if line[i] == '"' && line[i+1] == ',' {
				return line[i:]
			}
		}
	}
	return line
}

func H_C02_onewrite() {
	kind := vxPick(3)
	threshold := c02Levels[vxPick(5)]
	lvl := vxPick(4)
	msg := vxString(1)
	if kind == 0 {
		vxAssume(msg != "\n") // the Nano handler writes the message verbatim (stated: newline-free messages)
	}
	big := vxPick(2) == 1
	if big {
		msg = msg + strings.Repeat("x", 17000) // a line larger than the pooled-buffer limit (16 KiB)
		vxReach("line larger than 16 KiB")
	}
	alone := c02Alone(kind, lvl, msg)
	w := &c02Rec{}
	l, mu := c02Root(kind, w, threshold)
	w.mu = mu
	// an earlier record first: the pool may hand its buffer back (fork: recycled or new)
	first := vxPick(3)
	if first == 1 {
		c02Log(l, 3, "earlier record")
		w.writes = nil
	} else if first == 2 {
		c02Log(l, 3, "earlier oversized record"+strings.Repeat("y", 17000)) // its buffer must not come back polluted
		w.writes = nil
		vxReach("earlier record larger than 16 KiB")
	}
	c02Log(l, lvl, msg)
	if c02Levels[lvl] < threshold {
		vxAssert(len(w.writes) == 0, "C02: a record below the threshold caused a Write")
		vxReach("below threshold")
		return
	}
	vxAssert(len(w.writes) == 1, "C02: a record did not cause exactly one Write")
	line := w.writes[0]
	vxAssert(len(line) > 0 && line[len(line)-1] == '\n' && strings.Count(line, "\n") == 1, "C02: the Write does not carry exactly one complete line")
	vxAssert(w.unlocked == 0, "C02: Write was called without holding the handler's mutex")
	vxAssert(!vxLockHeld(mu), "C02: the mutex is still held after the record was written")
	vxAssert(c02NoTime(kind, line) == c02NoTime(kind, alone), "C02: the line differs from what the record is when logged alone (polluted by a recycled buffer?)")
}

// every logger derived from one handler serialises on the same mutex
func H_C02_sharedmutex() {
	kind := vxPick(3)
	w := &c02Rec{}
	l, mu := c02Root(kind, w, LevelDebug)
	w.mu = mu
	n := vxPick(4)
	for i := 0; i < n; i++ {
		if vxPick(2) == 0 {
			l = l.With("a", i)
		} else {
			l = l.WithGroup("g")
		}
		vxAssert(c02Mutex(l) == mu, "C02: a derived logger does not share its parent's mutex")
	}
	l.Info("m")
	vxAssert(len(w.writes) == 1 && w.unlocked == 0, "C02: derived logger wrote outside the shared mutex")
	if n == 3 {
		vxReach("derivation chain of 3")
	}
}

// during Handle every store goes to the pooled buffer / fresh objects (plus the destination itself)
func H_C02_ownership() {
	kind := vxPick(3)
	w := &c02Rec{}
	l, mu := c02Root(kind, w, LevelDebug)
	w.mu = mu
	l = l.With("a", vxString(1))
	l.Info("warm up") // puts a buffer into the pool
	recycled := vxPick(2) == 1
	if recycled {
		vxPoolMode(1)
	} else {
		vxPoolMode(2)
	}
	vxFrameBegin()
	vxFrameAllow(w)
	l.Info(vxString(1), "k", 2, slog.Group("g", slog.Int("n", 3)))
	n := vxFrameWrites()
	vxAssert(n == 0, "C02: handling a record stored into shared state other than its own pooled buffer")
	vxAssert(w.freed == 0, "C02: the line was handed to Write from a buffer already returned to the pool (another goroutine may be filling it)")
	vxAssert(vxPoolDoublePuts() == 0, "C02: a scratch buffer was returned to its pool twice (two records formatted at the same time would share it)")
	vxReach("record handled under the ownership monitor")
}

func H_C02_vacuity() {
	w := &c02Rec{}
	l, _ := c02Root(vxPick(3), w, LevelInfo)
	l.Info(vxString(1))
	vxAssert(len(w.writes) == 0, "vacuity twin (expected to fail)")
}

// ---------------------------------------------------------------- Engine 2 setup: goroutines logging concurrently

type c02ConcW struct{ n int }

func (w *c02ConcW) Write(p []byte) (int, error) {
	vxObs("write_enter", len(p))
	w.n++ // the destination's own state: a plain shared cell, touched only inside Write
	vxObs("write_exit", len(p))
	return len(p), nil
}

// S_c02: three goroutines log through the root logger and through loggers derived from it (one derives
// inside its goroutine); the real Handle of the chosen handler kind runs in each.
func S_c02() {
	kind := vxParam("kind")
	w := &c02ConcW{}
	root, _ := c02Root(kind, w, LevelDebug)
	derived := root.With("a", 1).WithGroup("g")
	vxPoolMode(2) // each record assembles its line in a buffer of its own (ownership is H_C02_ownership's subject)
	vxProc("root", func() { root.Info("m1") })
	vxProc("derived", func() { derived.Warn("m2", "k", 2) })
	vxProc("late", func() { root.WithGroup("late").With("b", 3).Error("m3") })
}
