package osutil

// C18 — CopyFile and MoveFile never lose file content (DESIGN.md section 3, C18; file-system model B.10).

type c18World struct {
	src, dst string
	content  []byte
	alias    bool // dst names the same file as src
}

func c18Setup() c18World {
	n := vxPick(vxParam("maxSize") + 1)
	content := []byte(vxStringN(n))
	w := c18World{content: content}
	w.src = vxFSFile("src", content)
	switch vxPick(10) {
	case 0:
		w.dst = vxFSMissing("dst")
	case 1:
		w.dst = vxFSFile("dst", []byte("old"))
	case 2:
		w.dst = vxFSAlias("src", "src", 0) // same path, other spelling
		w.alias = true
		vxReach("destination aliases the source")
	case 3:
		w.dst = vxFSAlias("lnk", "src", 1) // symbolic link to the source
		w.alias = true
	case 4:
		w.dst = vxFSAlias("hard", "src", 2) // hard link to the source
		w.alias = true
	case 5:
		w.dst = vxFSDir("dstdir")
	case 6:
		w.dst = vxFSNoParent("dst")
	case 7:
		w.dst = vxFSOtherFS("dst") // rename fails with EXDEV: copy-and-delete fallback
		vxReach("destination on another file system")
	case 8:
		w.dst = w.src // literally the same name
		w.alias = true
	case 9:
		w.dst = vxFSAlias("xlnk", "src", 3) // a symbolic link on the other file system pointing at the source
		w.alias = true
		vxReach("alias across file systems")
	}
	return w
}

func H_C18_copy() {
	w := c18Setup()
	vxFSFaults(vxPick(2) == 1)
	n, err := CopyFile(w.src, w.dst)
	vxFSFaults(false)
	got, ok := vxFSRead(w.src)
	vxAssert(ok && string(got) == string(w.content), "C18: CopyFile changed or lost the source's content")
	if err == nil {
		d, okd := vxFSRead(w.dst)
		vxAssert(okd && string(d) == string(w.content), "C18: CopyFile returned nil but the destination does not hold the source's bytes")
		vxAssert(int(n) == len(w.content), "C18: CopyFile returned nil with a wrong byte count")
		vxReach("copy succeeded")
	} else {
		vxReach("copy failed")
	}
}

func H_C18_move() {
	w := c18Setup()
	vxFSFaults(vxPick(2) == 1)
	err := MoveFile(w.src, w.dst)
	vxFSFaults(false)
	if err == nil {
		d, okd := vxFSRead(w.dst)
		vxAssert(okd && string(d) == string(w.content), "C18: MoveFile returned nil but the destination does not hold the source's bytes")
		_, still := vxFSRead(w.src)
		vxAssert(!still || vxFSSame(w.src, w.dst), "C18: MoveFile returned nil but the source is still there")
		vxReach("move succeeded")
	} else {
		got, ok := vxFSRead(w.src)
		vxAssert(ok && string(got) == string(w.content), "C18: MoveFile failed and the source is gone or damaged")
		vxReach("move failed")
	}
}

func H_C18_nosource() {
	dst := vxFSFile("dst", []byte("old"))
	src := vxFSMissing("src")
	_, err := CopyFile(src, dst)
	vxAssert(err != nil, "C18: CopyFile of a missing source returned nil")
	d, ok := vxFSRead(dst)
	vxAssert(ok && string(d) == "old", "C18: CopyFile of a missing source damaged the destination")
	vxAssert(MoveFile(src, dst) != nil, "C18: MoveFile of a missing source returned nil")
}

func H_C18_vacuity() {
	w := c18Setup()
	_, err := CopyFile(w.src, w.dst)
	vxAssert(err != nil, "vacuity twin (expected to fail)")
}
