# probe 2e
import sys, time
from z3 import *
src=open('ind.py').read().split("s=mkstate(0); n=mkstate(1)")[0]
exec(src)
# rebuild alts list with tags: we need per-alt access, so re-implement trans() to return alts
def alts_of(s):
    out=[]
    def alt(kind,procs,guard,upd): out.append((kind,guard,upd))
    for i in range(L):
        alt('int',0,And(s['qpc',i]==q0,s['canc']),{('qpc',i):C(qX)})
        upd={('qpc',i):C(q1),('qt',i):s['buf',i,0],('cnt',i):s['cnt',i]-1}
        for j in range(Q-1): upd['buf',i,j]=s['buf',i,j+1]
        upd['buf',i,Q-1]=C(0)
        alt('int',0,And(s['qpc',i]==q0,s['cnt',i]!=0),upd)
        alt('int',0,s['qpc',i]==q1,{('qpc',i):C(q2)})
        alt('int',0,And(s['qpc',i]==q2,s['canc']),{('qpc',i):C(qX)})
        alt('int',0,And(s['qpc',i]==q2,Not(s['canc'])),{('qpc',i):C(q3)})
        alt('int',0,And(s['qpc',i]==q3,s['wpc',i]==w3),{('qpc',i):C(q5),('wpc',i):C(wR),('wt',i):s['qt',i]})
        alt('int',0,And(s['qpc',i]==q3,s['wpc',i]!=w3),{('qpc',i):C(q4)})
        alt('int',0,And(s['qpc',i]==q4,s['canc']),{('qpc',i):C(qX)})
        for j in range(L):
            if sys.argv[4:]==['nouniv'] and j!=i: continue
            alt('int',0,And(s['qpc',i]==q4,s['wpc',j]==w3),{('qpc',i):C(q5),('wpc',j):C(wR),('wt',j):s['qt',i]})
        alt('int',0,And(s['qpc',i]==q4,s['wpc',i]==w2),{('qpc',i):C(q5),('wpc',i):C(wR),('wt',i):s['qt',i]})
        alt('int',0,s['qpc',i]==q5,{('qpc',i):C(q0)})
        alt('int',0,And(s['wpc',i]==w1,s['canc']),{('wpc',i):C(wX)})
        alt('int',0,And(s['wpc',i]==w1,Not(s['canc'])),{('wpc',i):C(w2)})
        alt('int',0,And(s['wpc',i]==w2,s['qpc',i]!=q4),{('wpc',i):C(w3)})
        alt('int',0,And(s['wpc',i]==w3,s['canc']),{('wpc',i):C(wX)})
        upd={('wpc',i):C(wI),'run':s['run']+1}
        for k in range(1,N+1): upd['st',k]=If(s['wt',i]==k,s['st',k]+1,s['st',k])
        alt('int',0,s['wpc',i]==wR,upd)
        alt('env',0,s['wpc',i]==wI,{('wpc',i):C(w1),'run':s['run']-1})
    return out
s=mkstate(0)
A=alts_of(s)
internal_enabled=Or(*[g for (k,g,u) in A if k=='int'])
pending=Or(*[And(s['acc',k],s['st',k]==0) for k in range(1,N+1)])
idle=Or(*[And(s['wpc',i]!=wR,s['wpc',i]!=wI) for i in range(L)])
sol=SolverFor('QF_BV'); sol.add(inv(s),Not(s['canc']),pending,idle,Not(internal_enabled))
t0=time.time(); r=sol.check(); print('no bad quiescent state (head-of-line):',r,round(time.time()-t0,2),'s')
if r==sat:
    m=sol.model(); print({str(k):m.eval(v,model_completion=True) for k,v in s.items() if not isinstance(k,str) or k in('canc',)})
# ranking: 8-bit arithmetic
def Z(e): return ZeroExt(12,e)
def rank(st):
    r=BitVecVal(0,16)
    qw={q0:0,q1:5,q2:4,q3:3,q4:2,q5:1,qX:0}; ww={w1:3,w2:2,w3:1,wR:0,wI:0,wX:0}
    for i in range(L):
        e=BitVecVal(0,16)
        for loc,wgt in qw.items(): e=If(st['qpc',i]==loc,BitVecVal(wgt,16),e)
        r=r+e
        e=BitVecVal(0,16)
        for loc,wgt in ww.items(): e=If(st['wpc',i]==loc,BitVecVal(wgt,16),e)
        r=r+e
        # task stages
        for j in range(Q): r=r+If(ULT(C(j),st['cnt',i]),BitVecVal(20,16),BitVecVal(0,16))
        r=r+If(Or([st['qpc',i]==x for x in (q1,q2,q3,q4)]),BitVecVal(10,16),BitVecVal(0,16))
        r=r+If(st['wpc',i]==wR,BitVecVal(5,16),BitVecVal(0,16))
    return r
bad=0; t0=time.time()
for (k,g,u) in A:
    if k!='int': continue
    n={key:(u[key] if key in u else s[key]) for key in s}
    sol=SolverFor('QF_BV'); sol.add(inv(s),g,Not(ULT(rank(n),rank(s))))
    if sol.check()!=unsat: bad+=1
print('ranking decreases on every internal transition: failures',bad,'of',len([1 for a in A if a[0]=='int']),round(time.time()-t0,2),'s')
