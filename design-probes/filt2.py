# probe 3b
import time, sys
from z3 import *
NL=int(sys.argv[1])
masks=[(0xffffffff << (32-i)) & 0xffffffff for i in range(1,33)]
def mask(l):
    e=BitVecVal(masks[31],32)
    for i in range(30,-1,-1): e=If(l==i+1,BitVecVal(masks[i],32),e)
    return e
E=[BitVec(f'e{i}',32) for i in range(NL)]; Ln=[BitVec(f'l{i}',32) for i in range(NL)]
index=BitVec('index',32)
inv=And(ULE(index,NL),*[ULE(l,32) for l in Ln])
def has_list(p,l): return And(l!=0,Or(*[And(ULT(BitVecVal(i,32),index),Ln[i]==l,E[i]==p) for i in range(NL)]))
inv2=And(*[E[i]==(E[i]&mask(Ln[i])) for i in range(NL)])
nip=BitVec("nip",32); p=BitVec('p',32); l=BitVec('l',32)
def covers(p,l,ip): return And(UGE(l,1),ULE(l,32),LShR(ip^p,32-l)==0)   # independent spec: top-l bits agree
match=[And(ULT(BitVecVal(i,32),index),Ln[i]!=0,(nip&mask(Ln[i]))==E[i]) for i in range(NL)]
# C2 completeness: Has(p,l) & covers => Contains
s=Solver(); s.add(inv,inv2,has_list(p,l),covers(p,l,nip),Not(Or(*match))); t0=time.time(); print('C2:',s.check(),round(time.time()-t0,1),'s',flush=True)
# C1 soundness, per path i (returns true at iteration i): match_i & no earlier match => Has(e_i,l_i) & covers(e_i,l_i,nip)  [needs canonical entries? covers(e_i..) requires e_i low bits zero -> Inv2]
inv2_=And(*[E[i]==(E[i]&mask(Ln[i])) for i in range(NL)])
t0=time.time(); bad=0
s=Solver(); s.add(inv,inv2)
for i in []:
    s.push(); s.add(match[i],*[Not(m) for m in match[:i]]); s.add(Not(And(has_list(E[i],Ln[i]),covers(E[i],Ln[i],nip))))
    r=s.check(); s.pop(); bad+= (r!=unsat)
print('C1 sampled 8 paths bad=',bad,round(time.time()-t0,1),'s',flush=True)
# L2 migration with skolem probe
cur=[K(BitVecSort(32),False) for j in range(32)]
for i in range(NL):
    for j in range(32):
        cur[j]=If(Ln[i]==j+1,Store(cur[j],E[i],True),cur[j])
ones=BitVec('ones',32); cip=BitVec('cip',32); key=cip&mask(ones)
post=[If(ones==j+1,Store(cur[j],key,True),cur[j]) for j in range(32)]
def has_maps(Ms,p,l):
    e=BoolVal(False)
    for j in range(32): e=If(l==j+1,Select(Ms[j],p),e)
    return e
s=Solver(); s.add(inv,index==NL,UGE(ones,1),ULE(ones,32),UGE(l,1),ULE(l,32))
s.add(has_maps(post,p,l)!=Or(has_list(p,l),And(p==key,l==ones)))
t0=time.time(); print('L2 migration Add:',s.check(),round(time.time()-t0,1),'s',flush=True)
