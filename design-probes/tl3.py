# Probe 2c: parallel-step semantics
import sys, time, itertools
from z3 import *
L=int(sys.argv[1]); Q=int(sys.argv[2]); N=int(sys.argv[3]); K=int(sys.argv[4]); mode=sys.argv[5] if len(sys.argv)>5 else 'bmc'
BUG=len(sys.argv)>6 and sys.argv[6]
W=4
def BV(n): return BitVec(n,W)
def C(v): return BitVecVal(v,W)
q0,q1,q2,q3,q4,q5,qX=range(7)
w1,w2,w3,wR,wI,wX=range(6)
pA,pB,pD=range(3)
def mkstate(t):
    s={}
    for i in range(L):
        s['qpc',i]=BV(f'qpc{i}_{t}'); s['qt',i]=BV(f'qt{i}_{t}')
        s['wpc',i]=BV(f'wpc{i}_{t}'); s['wt',i]=BV(f'wt{i}_{t}')
        s['cnt',i]=BV(f'cnt{i}_{t}')
        for j in range(Q): s['buf',i,j]=BV(f'buf{i}_{j}_{t}')
    s['ppc']=BV(f'ppc_{t}'); s['pk']=BV(f'pk_{t}')
    s['canc']=Bool(f'canc_{t}')
    for k in range(1,N+1):
        s['st',k]=BV(f'st{k}_{t}'); s['acc',k]=Bool(f'acc{k}_{t}'); s['rej',k]=Bool(f'rej{k}_{t}')
    s['run']=BV(f'run_{t}')
    return s
lane={k:BV(f'lane{k}') for k in range(1,N+1)}
def varsof(e,acc):
    if is_const(e) and e.decl().kind()==Z3_OP_UNINTERPRETED: acc.add(e.decl().name()); return
    for c in e.children(): varsof(c,acc)
def trans(s,n,t):
    alts=[]  # (procs tuple, guard, upd)
    def alt(procs,guard,upd): alts.append((procs,guard,upd))
    for i in range(L):
        Qi=('Q',i); Wi=('W',i)
        alt((Qi,),And(s['qpc',i]==q0,s['canc']),{('qpc',i):C(qX)})
        upd={('qpc',i):C(q1),('qt',i):s['buf',i,0],('cnt',i):s['cnt',i]-1}
        for j in range(Q-1): upd['buf',i,j]=s['buf',i,j+1]
        upd['buf',i,Q-1]=C(0)
        alt((Qi,),And(s['qpc',i]==q0,s['cnt',i]!=0),upd)
        alt((Qi,),s['qpc',i]==q1,{('qpc',i):C(q2)})
        alt((Qi,),And(s['qpc',i]==q2,s['canc']),{('qpc',i):C(qX)})
        alt((Qi,),And(s['qpc',i]==q2,Not(s['canc'])),{('qpc',i):C(q3)})
        alt((Qi,Wi),And(s['qpc',i]==q3,s['wpc',i]==w3),{('qpc',i):C(q5),('wpc',i):C(wR),('wt',i):s['qt',i]})
        alt((Qi,),And(s['qpc',i]==q3,s['wpc',i]!=w3),{('qpc',i):C(q4)})
        alt((Qi,),And(s['qpc',i]==q4,s['canc']),{('qpc',i):C(qX)})
        for j in range(L):
            alt((Qi,('W',j)),And(s['qpc',i]==q4,s['wpc',j]==w3),{('qpc',i):C(q5),('wpc',j):C(wR),('wt',j):s['qt',i]})
            if BUG=='dup' and j!=i:
                pass
        alt((Qi,Wi),And(s['qpc',i]==q4,s['wpc',i]==w2),{('qpc',i):C(q5),('wpc',i):C(wR),('wt',i):s['qt',i]})
        alt((Qi,),s['qpc',i]==q5,{('qpc',i):C(q0)})
        alt((Wi,),And(s['wpc',i]==w1,s['canc']),{('wpc',i):C(wX)})
        alt((Wi,),And(s['wpc',i]==w1,Not(s['canc'])),{('wpc',i):C(w2)})
        alt((Wi,),And(s['wpc',i]==w2,s['qpc',i]!=q4),{('wpc',i):C(w3)})
        alt((Wi,),And(s['wpc',i]==w3,s['canc']),{('wpc',i):C(wX)})
        upd={('wpc',i):C(wI),'run':s['run']+1}
        for k in range(1,N+1): upd['st',k]=If(s['wt',i]==k,s['st',k]+1,s['st',k])
        alt((Wi,),s['wpc',i]==wR,upd)
        if BUG=='loop':  # bug: worker forgets to clear and reruns same task once more when lane idle
            alt((Wi,),And(s['wpc',i]==wI,s['cnt',i]==0),{('wpc',i):C(wR),'run':s['run']-1})
        alt((Wi,),s['wpc',i]==wI,{('wpc',i):C(w1),'run':s['run']-1})
    P=('P',0)
    for k in range(1,N+1):
        alt((P,),And(s['ppc']==pA,s['pk']==k,s['canc']),{'pk':s['pk']+1,('rej',k):BoolVal(True)})
        alt((P,),And(s['ppc']==pA,s['pk']==k,Not(s['canc'])),{'ppc':C(pB)})
        alt((P,),And(s['ppc']==pB,s['pk']==k,s['canc']),{'ppc':C(pA),'pk':s['pk']+1,('rej',k):BoolVal(True)})
        alt((P,),And(s['ppc']==pB,s['pk']==k),{'ppc':C(pA),'pk':s['pk']+1,('rej',k):BoolVal(True)})
        for i in range(L):
            for c in range(Q):
                alt((P,),And(s['ppc']==pB,s['pk']==k,lane[k]==i,s['cnt',i]==c),{'ppc':C(pA),'pk':s['pk']+1,('acc',k):BoolVal(True),('buf',i,c):C(k),('cnt',i):s['cnt',i]+1})
    alt((('C',0),),Not(s['canc']),{'canc':BoolVal(True)})
    name2key={s[k].decl().name():k for k in s}
    fire=[Bool(f'f{a}_{t}') for a in range(len(alts))]
    rd=[];wr=[]
    for (procs,g,u) in alts:
        acc=set(); varsof(g,acc)
        for e in u.values(): varsof(e,acc)
        rd.append({name2key[x] for x in acc if x in name2key}); wr.append(set(u.keys()))
    cons=[]
    for a,(procs,g,u) in enumerate(alts): cons.append(Implies(fire[a],g))
    nconf=0
    for a in range(len(alts)):
        for b in range(a+1,len(alts)):
            pa,pb=set(alts[a][0]),set(alts[b][0])
            conflict = bool(pa&pb) or bool(wr[a]&wr[b]) or bool(wr[a]&rd[b]) or bool(rd[a]&wr[b])
            if conflict: cons.append(Or(Not(fire[a]),Not(fire[b]))); nconf+=1
    for key in s:
        e=s[key]
        for a,(procs,g,u) in enumerate(alts):
            if key in u: e=If(fire[a],u[key],e)
        cons.append(n[key]==e)
    return And(*cons), len(alts), nconf
def init(s):
    c=[]
    for i in range(L):
        c+=[s['qpc',i]==q0,s['qt',i]==0,s['wpc',i]==w1,s['wt',i]==0,s['cnt',i]==0]
        for j in range(Q): c.append(s['buf',i,j]==0)
    c+=[s['ppc']==pA,s['pk']==1,Not(s['canc']),s['run']==0]
    for k in range(1,N+1): c+=[s['st',k]==0,Not(s['acc',k]),Not(s['rej',k]),ULT(lane[k],L)]
    return And(*c)
def bad(s):
    b=[UGT(s['run'],L)]
    for k in range(1,N+1): b+=[UGT(s['st',k],1),And(s['rej',k],s['st',k]!=0)]
    return Or(*b)
t0=time.time()
S=[mkstate(t) for t in range(K+1)]
sol=SolverFor('QF_BV')
sol.add(init(S[0]))
for t in range(K):
    tr,nalt,nconf=trans(S[t],S[t+1],t)
    sol.add(tr)
if mode=='term':
    # completeness probe: is there a run of K parallel steps in which every step fires >=1 transition? (unsat => all runs shorter)
    pass
sol.add(Or(*[bad(S[t]) for t in range(K+1)]))
print('alts',nalt,'conflicts',nconf,'build',round(time.time()-t0,1))
t0=time.time(); r=sol.check(); print('L',L,'Q',Q,'N',N,'K',K,r,round(time.time()-t0,1),'s',flush=True)
