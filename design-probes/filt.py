# probe 3
import time
from z3 import *
import sys
NL=int(sys.argv[1])
masks=[(0xffffffff << (32-i)) & 0xffffffff for i in range(1,33)]
def mask(l):  # ipv4Masks[l-1] as ite-chain (constant table lookup with symbolic index)
    e=BitVecVal(masks[31],32)
    for i in range(30,-1,-1): e=If(l==i+1,BitVecVal(masks[i],32),e)
    return e
E=[BitVec(f'e{i}',32) for i in range(NL)]; Ln=[BitVec(f'l{i}',32) for i in range(NL)]
index=BitVec('index',32)
inv=And(ULE(index,NL),*[ULE(l,32) for l in Ln])
def has_list(p,l): return And(l!=0,Or(*[And(ULT(BitVecVal(i,32),index),Ln[i]==l,E[i]==p) for i in range(NL)]))
nip=BitVec('nip',32)
contains=Or(*[And(ULT(BitVecVal(i,32),index),Ln[i]!=0,(nip&mask(Ln[i]))==E[i]) for i in range(NL)])
spec=Or(*[has_list(nip&BitVecVal(masks[o-1],32),BitVecVal(o,32)) for o in range(1,33)])
s=Solver(); s.add(inv,contains!=spec); t0=time.time(); print('L1 list-mode Contains<->Has:',s.check(),round(time.time()-t0,1),'s')
# L2 migration: index==256, Add(c) moves list to maps then inserts
M=[Array(f'M{j}',BitVecSort(32),BoolSort()) for j in range(32)]
M0=[K(BitVecSort(32),False) for j in range(32)]
cur=list(M0)
for i in range(NL):
    for j in range(32):
        cur[j]=If(Ln[i]==j+1,Store(cur[j],E[i],True),cur[j])
ones=BitVec('ones',32); cip=BitVec('cip',32)
key=cip&mask(ones)
post=[If(ones==j+1,Store(cur[j],key,True),cur[j]) for j in range(32)]
p=BitVec('p',32); l=BitVec('l',32)
def has_maps(Ms,p,l):
    e=BoolVal(False)
    for j in range(32): e=If(l==j+1,Select(Ms[j],p),e)
    return e
s=Solver(); s.add(inv,index==NL,UGE(ones,1),ULE(ones,32),UGE(l,1),ULE(l,32))
s.add(has_maps(post,p,l)!=Or(has_list(p,l),And(p==key,l==ones)))
t0=time.time(); print('L2 migration Add:',s.check(),round(time.time()-t0,1),'s')
