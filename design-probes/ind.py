# probe 2d
import sys, time
from z3 import *
exec(open('tl3.py').read().split("t0=time.time()\nS=[mkstate")[0].replace("L=int(sys.argv[1]); Q=int(sys.argv[2]); N=int(sys.argv[3]); K=int(sys.argv[4]); mode=sys.argv[5] if len(sys.argv)>5 else 'bmc'\nBUG=len(sys.argv)>6 and sys.argv[6]","L=int(sys.argv[1]); Q=int(sys.argv[2]); N=int(sys.argv[3]); K=1; BUG=sys.argv[4] if len(sys.argv)>4 else ''"))
def b2i(b): return If(b,C(1),C(0))
def occ(s,k):
    t=s['st',k]
    for i in range(L):
        for j in range(Q): t=t+b2i(And(ULT(C(j),s['cnt',i]),s['buf',i,j]==k))
        t=t+b2i(And(Or([s['qpc',i]==x for x in (q1,q2,q3,q4)]),s['qt',i]==k))
        t=t+b2i(And(s['wpc',i]==wR,s['wt',i]==k))
    return t
def inv(s):
    c=[]
    for i in range(L):
        c+=[ULE(s['qpc',i],qX),ULE(s['wpc',i],wX),ULE(s['cnt',i],Q)]
        c.append(Implies(s['qpc',i]==qX,s['canc'])); c.append(Implies(s['wpc',i]==wX,s['canc']))
        for j in range(Q): c.append(Implies(ULT(C(j),s['cnt',i]),And(UGE(s['buf',i,j],1),ULE(s['buf',i,j],N))))
        c.append(Implies(Or([s['qpc',i]==x for x in (q1,q2,q3,q4)]),And(UGE(s['qt',i],1),ULE(s['qt',i],N))))
        c.append(Implies(s['wpc',i]==wR,And(UGE(s['wt',i],1),ULE(s['wt',i],N))))
    runc=C(0)
    for i in range(L): runc=runc+b2i(s['wpc',i]==wI)
    c.append(s['run']==runc)
    c+=[UGE(s['pk'],1),ULE(s['pk'],N+1),Or(s['ppc']==pA,s['ppc']==pB),Implies(s['ppc']==pB,ULE(s['pk'],N))]
    for k in range(1,N+1):
        c.append(ULT(lane[k],L))
        c.append(Implies(UGE(C(k),s['pk']),And(Not(s['acc',k]),Not(s['rej',k]))))
        c.append(Implies(ULT(C(k),s['pk']),Xor(s['acc',k],s['rej',k])))
        c.append(ULE(s['st',k],1))
        o=occ(s,k)
        c.append(Implies(Not(s['acc',k]),o==0)); c.append(ULE(o,1)); c.append(Implies(And(s['acc',k],Not(s['canc'])),o==1))
    return And(*c)
s=mkstate(0); n=mkstate(1)
tr,nalt,nconf=trans(s,n,0)
sol=SolverFor('QF_BV'); sol.add(inv(s),tr,Not(inv(n)))
t0=time.time(); r=sol.check(); print('induction step (parallel-step T):',r,round(time.time()-t0,2),'s')
if r==sat:
    m=sol.model(); print({str(k):m.eval(v) for k,v in s.items()}); print([str(d) for d in m.decls() if str(d).startswith('f') and is_true(m[d])])
sol=SolverFor('QF_BV'); sol.add(inv(s),bad(s)); print('inv=>safe:',sol.check())
sol=SolverFor('QF_BV'); sol.add(init(s),Not(inv(s))); print('init=>inv:',sol.check())
