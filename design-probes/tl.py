# Throwaway probe: monolithic BMC of the tasklane protocol, schedule = symbolic choice per step.
import sys, time
from z3 import *
L=int(sys.argv[1]); Q=int(sys.argv[2]); N=int(sys.argv[3]); K=int(sys.argv[4]); mode=sys.argv[5] if len(sys.argv)>5 else 'once'
# locations
q0,q1,q2,q3,q4,q5,qX=range(7)
w1,w2,w3,wR,wI,wX=range(6)
pA,pB,pD=range(3)
def mkstate(t):
    s={}
    for i in range(L):
        s['qpc',i]=Int(f'qpc{i}_{t}'); s['qt',i]=Int(f'qt{i}_{t}')
        s['wpc',i]=Int(f'wpc{i}_{t}'); s['wt',i]=Int(f'wt{i}_{t}')
        s['cnt',i]=Int(f'cnt{i}_{t}')
        for j in range(Q): s['buf',i,j]=Int(f'buf{i}_{j}_{t}')
    s['ppc']=Int(f'ppc_{t}'); s['pk']=Int(f'pk_{t}')  # producer: next task index
    s['canc']=Bool(f'canc_{t}')
    for k in range(1,N+1):
        s['st',k]=Int(f'st{k}_{t}'); s['acc',k]=Bool(f'acc{k}_{t}'); s['rej',k]=Bool(f'rej{k}_{t}'); s['lane',k]=Int(f'lane{k}')
    s['run']=Int(f'run_{t}')
    return s
def frame(s,n,changed):
    return [n[k]==s[k] for k in s if k not in changed and not (isinstance(k,tuple) and k[0]=='lane')]
def trans(s,n):
    alts=[]
    def alt(guard,upd):
        ch=set(upd.keys())
        alts.append(And(guard,*[n[k]==v for k,v in upd.items()],*frame(s,n,ch)))
    for i in range(L):
        # queue i
        alt(And(s['qpc',i]==q0,s['canc']),{('qpc',i):qX})
        if Q>0:
            upd={('qpc',i):q1,('qt',i):s['buf',i,0],('cnt',i):s['cnt',i]-1}
            for j in range(Q-1): upd['buf',i,j]=s['buf',i,j+1]
            upd['buf',i,Q-1]=IntVal(0)
            alt(And(s['qpc',i]==q0,s['cnt',i]>0),upd)
        else:
            # unbuffered: rendezvous with producer at pB targeting lane i
            for k in range(1,N+1):
                alt(And(s['qpc',i]==q0,s['ppc']==pB,s['pk']==k,s['lane',k]==i),{('qpc',i):q1,('qt',i):IntVal(k),'ppc':pA,'pk':s['pk']+1,('acc',k):BoolVal(True)})
        alt(s['qpc',i]==q1,{('qpc',i):q2})
        alt(And(s['qpc',i]==q2,s['canc']),{('qpc',i):qX})
        alt(And(s['qpc',i]==q2,Not(s['canc'])),{('qpc',i):q3})
        # q3 nonblocking send to own worker parked at w3
        alt(And(s['qpc',i]==q3,s['wpc',i]==w3),{('qpc',i):q5,('wpc',i):wR,('wt',i):s['qt',i]})
        alt(And(s['qpc',i]==q3,s['wpc',i]!=w3),{('qpc',i):q4})
        # q4 blocking
        alt(And(s['qpc',i]==q4,s['canc']),{('qpc',i):qX})
        for j in range(L):
            # send to worker j parked at w3 (own via blk, other via univ) ; own worker also at w2 (nonblocking recv) while we are parked
            alt(And(s['qpc',i]==q4,s['wpc',j]==w3),{('qpc',i):q5,('wpc',j):wR,('wt',j):s['qt',i]})
        alt(And(s['qpc',i]==q4,s['wpc',i]==w2),{('qpc',i):q5,('wpc',i):wR,('wt',i):s['qt',i]})
        alt(s['qpc',i]==q5,{('qpc',i):q0})
        # worker i
        alt(And(s['wpc',i]==w1,s['canc']),{('wpc',i):wX})
        alt(And(s['wpc',i]==w1,Not(s['canc'])),{('wpc',i):w2})
        alt(And(s['wpc',i]==w2,s['qpc',i]!=q4),{('wpc',i):w3})
        alt(And(s['wpc',i]==w3,s['canc']),{('wpc',i):wX})
        upd={('wpc',i):wI,'run':s['run']+1}
        for k in range(1,N+1): upd['st',k]=If(s['wt',i]==k,s['st',k]+1,s['st',k])
        alt(s['wpc',i]==wR,upd)
        alt(s['wpc',i]==wI,{('wpc',i):w1,'run':s['run']-1})
    # producer
    for k in range(1,N+1):
        alt(And(s['ppc']==pA,s['pk']==k,s['canc']),{'pk':s['pk']+1,('rej',k):BoolVal(True)})
        alt(And(s['ppc']==pA,s['pk']==k,Not(s['canc'])),{'ppc':pB})
        alt(And(s['ppc']==pB,s['pk']==k,s['canc']),{'ppc':pA,'pk':s['pk']+1,('rej',k):BoolVal(True)})
        alt(And(s['ppc']==pB,s['pk']==k),{'ppc':pA,'pk':s['pk']+1,('rej',k):BoolVal(True)}) # timeout any time
        if Q>0:
            for i in range(L):
                for c in range(Q):
                    alt(And(s['ppc']==pB,s['pk']==k,s['lane',k]==i,s['cnt',i]==c),{'ppc':pA,'pk':s['pk']+1,('acc',k):BoolVal(True),('buf',i,c):IntVal(k),('cnt',i):s['cnt',i]+1})
    alt(Not(s['canc']),{'canc':BoolVal(True)})
    # stutter
    alt(BoolVal(True),{})
    return Or(*alts)
def init(s):
    c=[]
    for i in range(L):
        c+=[s['qpc',i]==q0,s['qt',i]==0,s['wpc',i]==w1,s['wt',i]==0,s['cnt',i]==0]
        for j in range(Q): c.append(s['buf',i,j]==0)
    c+=[s['ppc']==pA,s['pk']==1,Not(s['canc']),s['run']==0]
    for k in range(1,N+1): c+=[s['st',k]==0,Not(s['acc',k]),Not(s['rej',k]),s['lane',k]>=0,s['lane',k]<L]
    return And(*c)
def bad(s):
    b=[s['run']>L]
    for k in range(1,N+1): b+=[s['st',k]>1,And(s['rej',k],s['st',k]>0)]
    return Or(*b)
t0=time.time()
S=[mkstate(t) for t in range(K+1)]
sol=SolverFor('QF_LIA') if mode!='bv' else Solver()
sol.add(init(S[0]))
for t in range(K): sol.add(trans(S[t],S[t+1]))
sol.add(bad(S[K]))   # with stutter, bad at K covers bad at any step<=K if bad is sticky; st/rej are monotone, run>L not sticky but fine for probe
print('build',round(time.time()-t0,1))
t0=time.time(); r=sol.check(); print('L',L,'Q',Q,'N',N,'K',K,r,round(time.time()-t0,1),'s')
